(* Proofs about model/LowEntropy.v (C17). *)
From Coq Require Import NArith ZArith List Bool Lia.
From M Require Import gen.Consts base.Bits64 model.LowEntropy proofs.Bits64Proofs.
Import ListNotations.
Open Scope N_scope.

Lemma doc_vector :
  encode doc_body 1 doc_hm 0 0 = Ok [1;2;3;4;5;6;7;8] /\
  encode doc_body 1 doc_hm 0 1 = Ok [241;242;243;244;245;246;247;248].
Proof. split; vm_compute; reflexivity. Qed.

Lemma chunk_len_8 : chunk_len = 8%nat.
Proof. reflexivity. Qed.

(* ---------- lists ---------- *)
Lemma firstn_app_exact {A} n (l1 l2 : list A) : length l1 = n -> firstn n (l1 ++ l2) = l1.
Proof. intro H. subst n. rewrite firstn_app, Nat.sub_diag, firstn_all. cbn. apply app_nil_r. Qed.
Lemma skipn_app_exact {A} n (l1 l2 : list A) : length l1 = n -> skipn n (l1 ++ l2) = l2.
Proof. intro H. subst n. rewrite skipn_app, Nat.sub_diag, skipn_all. reflexivity. Qed.

(* ---------- big endian ---------- *)
Lemma pow256_nz n : 256 ^ n <> 0.
Proof. apply N.pow_nonzero. discriminate. Qed.
Lemma pow256_pow2 n : 256 ^ n = 2 ^ (8 * n).
Proof. rewrite N.pow_mul_r. reflexivity. Qed.

Lemma be_val_snoc l b : be_val (l ++ [b]) = be_val l * 256 + b.
Proof. unfold be_val. rewrite fold_left_app. reflexivity. Qed.

Lemma be_bytes_length n : forall v, length (be_bytes n v) = n.
Proof. induction n as [|n IH]; intro v; cbn [be_bytes]; [reflexivity|]. rewrite app_length, IH. cbn. lia. Qed.

Lemma be_bytes_ok n : forall v, bytes_ok (be_bytes n v).
Proof.
  induction n as [|n IH]; intro v; cbn [be_bytes]; [constructor|].
  apply Forall_app. split; [apply IH|]. constructor; [|constructor].
  unfold byte_ok. apply N.mod_lt. discriminate.
Qed.

Lemma be_val_bytes n : forall v, be_val (be_bytes n v) = v mod 256 ^ N.of_nat n.
Proof.
  induction n as [|n IH]; intro v; cbn [be_bytes].
  - change (256 ^ N.of_nat 0) with 1. rewrite N.mod_1_r. reflexivity.
  - rewrite be_val_snoc, IH, Nat2N.inj_succ, N.pow_succ_r'.
    rewrite (N.mod_mul_r v 256) by (try apply pow256_nz; discriminate). lia.
Qed.

Lemma be_val_lt l : bytes_ok l -> be_val l < 256 ^ N.of_nat (length l).
Proof.
  induction l as [|b l IH] using rev_ind; intro H.
  - cbn. lia.
  - apply Forall_app in H. destruct H as [Hl Hb]. inversion Hb as [|? ? Hb' _]; subst.
    unfold byte_ok in Hb'. specialize (IH Hl).
    rewrite be_val_snoc, app_length. cbn [length]. rewrite Nat.add_1_r, Nat2N.inj_succ, N.pow_succ_r'. lia.
Qed.

Lemma be_bytes_val l : bytes_ok l -> be_bytes (length l) (be_val l) = l.
Proof.
  induction l as [|b l IH] using rev_ind; intro H; [reflexivity|].
  apply Forall_app in H. destruct H as [Hl Hb]. inversion Hb as [|? ? Hb' _]; subst.
  unfold byte_ok in Hb'.
  rewrite app_length. cbn [length]. rewrite Nat.add_1_r. cbn [be_bytes].
  rewrite be_val_snoc.
  replace ((be_val l * 256 + b) / 256) with (be_val l).
  2:{ apply N.div_unique with b; lia. }
  replace ((be_val l * 256 + b) mod 256) with b.
  2:{ apply N.mod_unique with (be_val l); lia. }
  rewrite IH by exact Hl. reflexivity.
Qed.

Lemma be_bytes_mod n : forall v, be_bytes n (v mod 256 ^ N.of_nat n) = be_bytes n v.
Proof.
  induction n as [|n IH]; intro v; cbn [be_bytes]; [reflexivity|].
  rewrite Nat2N.inj_succ, N.pow_succ_r'.
  rewrite (N.mod_mul_r v 256) by (try apply pow256_nz; discriminate).
  set (r := (v / 256) mod 256 ^ N.of_nat n).
  assert (Hm : v mod 256 < 256) by (apply N.mod_lt; discriminate).
  replace ((v mod 256 + 256 * r) / 256) with r.
  2:{ apply N.div_unique with (v mod 256); lia. }
  replace ((v mod 256 + 256 * r) mod 256) with (v mod 256).
  2:{ apply N.mod_unique with r; lia. }
  unfold r. rewrite IH. reflexivity.
Qed.

(* ---------- one chunk, at word level ---------- *)
Section Word.
  Variables (M k : N).
  Hypothesis HM : fits64 M.
  Hypothesis Hk : k <= popcount M.
  Hypothesis Hk64 : k < 64.
  Let D := pdep (lowbits k) M.
  Let PM := not64 D.

  Lemma lowbits_ones : lowbits k = N.ones k.
  Proof. unfold lowbits. destruct (64 <=? k) eqn:E; [apply N.leb_le in E; lia | reflexivity]. Qed.

  Lemma D_sub_M : N.land D M = D.
  Proof. apply pdep_sub_mask. Qed.
  Lemma D_fits : fits64 D.
  Proof. apply fits64_pdep, HM. Qed.
  Lemma PM_fits : fits64 PM.
  Proof. apply fits64_not64, D_fits. Qed.

  Lemma src_sub_D s : s < 2 ^ k -> N.land (pdep s M) D = pdep s M.
  Proof.
    intro Hs. unfold D. rewrite <- pdep_land, lowbits_ones, N.land_ones, N.mod_small by exact Hs. reflexivity.
  Qed.

  Lemma PM_nz : M <> ones64 -> PM <> 0.
  Proof.
    intros HMo HP. apply HMo. unfold PM, not64 in HP. apply N.lxor_eq in HP.
    pose proof D_sub_M as H1. rewrite HP in H1. unfold fits64 in HM.
    rewrite N.land_comm in H1. rewrite H1 in HM. symmetry. exact HM.
  Qed.

  Lemma enc_padding0 s : s < 2 ^ k -> N.land (pdep s M) PM = 0.
  Proof.
    intro Hs. pose proof (src_sub_D s Hs) as H1. pose proof D_fits as H2. unfold fits64 in H2.
    unfold PM, not64. bitblast using H1 H2.
  Qed.
  Lemma enc_padding1 s : s < 2 ^ k -> N.land (N.lor (pdep s M) PM) PM = PM.
  Proof. intro Hs. bitblast. Qed.

  Lemma pow_k_le : 2 ^ k <= 2 ^ popcount M.
  Proof. apply N.pow_le_mono_r; [discriminate | exact Hk]. Qed.

  Lemma dec_src0 s : s < 2 ^ k -> pext (pdep s M) M mod 2 ^ k = s.
  Proof.
    intro Hs. pose proof pow_k_le. rewrite pext_pdep.
    rewrite (N.mod_small s (2 ^ popcount M)) by lia. apply N.mod_small; exact Hs.
  Qed.

  Lemma pext_PM_low : pext PM M mod 2 ^ k = 0.
  Proof.
    rewrite <- N.land_ones. set (z := N.land (pext PM M) (N.ones k)).
    assert (Hz : z < 2 ^ k).
    { unfold z. rewrite N.land_ones. apply N.mod_lt, N.pow_nonzero. discriminate. }
    pose proof pow_k_le as Hle.
    apply (pdep_inj_low z 0 M); [lia | | ].
    { apply N.le_lt_trans with 0; [lia|]. apply N.neq_0_lt_0, N.pow_nonzero. discriminate. }
    rewrite pdep_0. unfold z. rewrite pdep_land, pdep_pext, <- lowbits_ones. fold D.
    pose proof D_fits as H2. unfold fits64 in H2. unfold PM, not64. bitblast using H2.
  Qed.

  Lemma dec_src1 s : s < 2 ^ k -> pext (N.lor (pdep s M) PM) M mod 2 ^ k = s.
  Proof.
    intro Hs. rewrite pext_lor, <- N.land_ones, N.land_lor_distr_l, !N.land_ones.
    rewrite dec_src0 by exact Hs. rewrite pext_PM_low. apply N.lor_0_r.
  Qed.

  (* canonicity of one word *)
  Lemma canon_data c : pdep (pext c M mod 2 ^ k) M = N.land c D.
  Proof.
    rewrite <- N.land_ones, pdep_land, pdep_pext, <- lowbits_ones. fold D.
    pose proof D_sub_M as H1. bitblast using H1.
  Qed.
  Lemma canon_join c : fits64 c -> N.lor (N.land c D) (N.land c PM) = c.
  Proof.
    intro Hc. pose proof D_fits as H2. unfold fits64 in *. unfold PM, not64. bitblast using Hc H2.
  Qed.
End Word.

(* ---------- one chunk, at byte level ---------- *)
Lemma enc_chunk_length M pb g : length (enc_chunk M pb g) = chunk_len.
Proof. unfold enc_chunk. apply be_bytes_length. Qed.
Lemma enc_chunk_ok M pb g : bytes_ok (enc_chunk M pb g).
Proof. unfold enc_chunk. apply be_bytes_ok. Qed.

Lemma pow256_8 : 256 ^ N.of_nat 8 = W64.
Proof. reflexivity. Qed.

Lemma enc_dec_chunk M pb pbo g :
  fits64 M -> M <> ones64 -> bytes_ok g ->
  8 * N.of_nat (length g) <= popcount M -> 8 * N.of_nat (length g) < 64 ->
  (pbo = None \/ pbo = Some pb) ->
  dec_chunk M (length g) pbo (enc_chunk M pb g) = Ok (pb, g).
Proof.
  intros HM HMo Hg Hk Hk64 Hpbo.
  set (k := 8 * N.of_nat (length g)) in *.
  assert (Hs : be_val g < 2 ^ k). { unfold k. rewrite <- pow256_pow2. apply be_val_lt, Hg. }
  unfold dec_chunk. rewrite enc_chunk_length, Nat.eqb_refl. cbn [negb].
  unfold enc_chunk. fold k.
  set (D := pdep (lowbits k) M). set (PM := not64 D). set (s := be_val g) in *.
  set (c := if pb then N.lor (pdep s M) PM else pdep s M).
  assert (Hc : fits64 c).
  { unfold c; destruct pb; [apply fits64_lor|]; try (apply fits64_pdep; exact HM). apply PM_fits, HM. }
  rewrite be_val_bytes, chunk_len_8, pow256_8.
  rewrite (N.mod_small c W64) by (apply fits64_lt; exact Hc).
  assert (Hbytes : be_bytes (length g) (pext c M) = g).
  { rewrite <- be_bytes_mod, pow256_pow2. fold k.
    replace (pext c M mod 2 ^ k) with s; [apply be_bytes_val, Hg|].
    unfold c; destruct pb; symmetry; [apply dec_src1 | apply dec_src0]; assumption. }
  rewrite Hbytes.
  assert (Hpad : N.land c PM = if pb then PM else 0).
  { unfold c; destruct pb; [apply enc_padding1 | apply enc_padding0]; assumption. }
  rewrite Hpad.
  pose proof (PM_nz M k HM HMo) as Hnz. fold D in Hnz. fold PM in Hnz.
  destruct pb.
  - rewrite N.eqb_refl. destruct (PM =? 0) eqn:E; [apply N.eqb_eq in E; contradiction|].
    destruct Hpbo as [-> | ->]; reflexivity.
  - cbn [N.eqb]. destruct Hpbo as [-> | ->]; reflexivity.
Qed.

Lemma dec_enc_chunk M L pbo g pb bs :
  fits64 M -> 8 * N.of_nat L <= popcount M -> 8 * N.of_nat L < 64 -> bytes_ok g ->
  dec_chunk M L pbo g = Ok (pb, bs) ->
  (forall p, pbo = Some p -> pb = p) /\ length g = chunk_len /\ length bs = L /\ bytes_ok bs /\
  enc_chunk M pb bs = g.
Proof.
  intros HM Hk Hk64 Hg. unfold dec_chunk.
  destruct (Nat.eqb (length g) chunk_len) eqn:El; cbn [negb]; [|discriminate].
  apply Nat.eqb_eq in El.
  set (k := 8 * N.of_nat L) in *. set (c := be_val g). set (D := pdep (lowbits k) M). set (PM := not64 D).
  assert (Hc : fits64 c).
  { apply fits64_lt. unfold c. pose proof (be_val_lt g Hg) as H. rewrite El, chunk_len_8, pow256_8 in H. exact H. }
  intro Hdec.
  assert (Hcore : bs = be_bytes L (pext c M) /\ N.land c PM = (if pb then PM else 0) /\
                  (forall p, pbo = Some p -> pb = p)).
  { destruct pbo as [[|]|].
    - destruct (N.land c PM =? PM) eqn:E; inversion Hdec; subst. apply N.eqb_eq in E.
      repeat split; auto. intros p Hp; inversion Hp; auto.
    - destruct (N.land c PM =? 0) eqn:E; inversion Hdec; subst. apply N.eqb_eq in E.
      repeat split; auto. intros p Hp; inversion Hp; auto.
    - destruct (N.land c PM =? 0) eqn:E.
      + inversion Hdec; subst. apply N.eqb_eq in E. repeat split; auto; discriminate.
      + destruct (N.land c PM =? PM) eqn:E2; inversion Hdec; subst. apply N.eqb_eq in E2.
        repeat split; auto; discriminate. }
  destruct Hcore as (Hbs & Hpad & Hpbo).
  split; [exact Hpbo|]. split; [exact El|].
  assert (Hlen : length bs = L) by (rewrite Hbs; apply be_bytes_length).
  split; [exact Hlen|]. split; [rewrite Hbs; apply be_bytes_ok|].
  unfold enc_chunk. rewrite Hlen. fold k. fold D. fold PM.
  assert (Hv : be_val bs = pext c M mod 2 ^ k).
  { rewrite Hbs, be_val_bytes, pow256_pow2. reflexivity. }
  rewrite Hv, (canon_data M k Hk Hk64). fold D.
  assert (Hj : (if pb then N.lor (N.land c D) PM else N.land c D) = c).
  { pose proof (canon_join M k HM c Hc) as J. fold D in J. fold PM in J. rewrite Hpad in J.
    destruct pb; [exact J | rewrite N.lor_0_r in J; exact J]. }
  rewrite Hj. unfold c. rewrite <- El. apply be_bytes_val, Hg.
Qed.

(* a chunk whose padding is neither all-zero nor all-one is refused whatever polarity is expected *)
Lemma dec_chunk_mixed M L pbo g :
  let PM := not64 (pdep (lowbits (8 * N.of_nat L)) M) in
  N.land (be_val g) PM <> 0 -> N.land (be_val g) PM <> PM ->
  exists e, dec_chunk M L pbo g = Err e.
Proof.
  intros PM H0 H1. unfold dec_chunk. fold PM.
  destruct (negb (Nat.eqb (length g) chunk_len)); [eexists; reflexivity|].
  apply N.eqb_neq in H0. apply N.eqb_neq in H1. rewrite H0, H1.
  destruct pbo as [[|]|]; eexists; reflexivity.
Qed.

(* ---------- parameters ---------- *)
Lemma mode_params_facts mode c w : mode_params mode = Some (c, w) -> (1 <= c <= 7 /\ 2 * w = 8 * c)%Z.
Proof.
  unfold mode_params. destruct ((0 <=? mode) && (mode <? 8))%Z eqn:E; [|discriminate].
  apply andb_true_iff in E. destruct E as [E1 E2]. apply Z.leb_le in E1. apply Z.ltb_lt in E2.
  assert (H : (mode = 0 \/ mode = 1 \/ mode = 2 \/ mode = 3 \/ mode = 4 \/ mode = 5 \/ mode = 6 \/ mode = 7)%Z) by lia.
  intro Hm.
  repeat (destruct H as [H|H]; [subst mode; vm_compute in Hm; try discriminate; inversion Hm; subst; lia|]).
  subst mode; vm_compute in Hm; try discriminate; inversion Hm; subst; lia.
Qed.

(* the table of docs/protocol.md *)
Lemma mode_params_table mode c w :
  mode_params mode = Some (c, w) <->
  In (mode, c, w) [(1, 4, 16); (2, 5, 20); (3, 6, 24); (4, 7, 28)]%Z.
Proof.
  split.
  - unfold mode_params. destruct ((0 <=? mode) && (mode <? 8))%Z eqn:E; [|discriminate].
    apply andb_true_iff in E. destruct E as [E1 E2]. apply Z.leb_le in E1. apply Z.ltb_lt in E2.
    assert (H : (mode = 0 \/ mode = 1 \/ mode = 2 \/ mode = 3 \/ mode = 4 \/ mode = 5 \/ mode = 6 \/ mode = 7)%Z) by lia.
    intro Hm.
    repeat (destruct H as [H|H]; [subst mode; vm_compute in Hm; try discriminate; inversion Hm; subst; cbn; tauto|]).
    subst mode; vm_compute in Hm; try discriminate; inversion Hm; subst; cbn; tauto.
  - cbn. intros [H|[H|[H|[H|[]]]]]; inversion H; subst; reflexivity.
Qed.

Lemma rotate_mask_facts init rot i : init < W64 ->
  rotate_mask init rot i < W64 /\ popcount (rotate_mask init rot i) = popcount init.
Proof.
  intro H. unfold rotate_mask.
  destruct ((rot =? C17_rotNone)%Z || (i =? 0))%bool; [split; [exact H|reflexivity]|].
  destruct (rot <=? C17_rotRight15)%Z.
  - set (z := (- (Z.of_N (i mod 64) * rot))%Z).
    assert (Hs : Z.to_N (z mod 64) <= 64) by (pose proof (Z.mod_pos_bound z 64 ltac:(lia)); lia).
    split; [apply rotl64_lt | apply popcount_rotl64]; assumption.
  - set (z := (Z.of_N (i mod 64) * (rot / 16))%Z).
    assert (Hs : Z.to_N (z mod 64) <= 64) by (pose proof (Z.mod_pos_bound z 64 ltac:(lia)); lia).
    split; [apply rotl64_lt | apply popcount_rotl64]; assumption.
Qed.

Lemma nchunks_step n c : (1 <= n -> 1 <= c -> nchunks n c = 1 + nchunks (Z.max 0 (n - c)) c)%Z.
Proof.
  intros Hn Hc. unfold nchunks.
  assert (Hcase : (n < c \/ n = c \/ n > c)%Z) by lia. destruct Hcase as [Hlt|[Heq|Hgt]].
  - rewrite Z.max_l by lia. rewrite Z.div_0_l, Z.mod_0_l by lia.
    rewrite Z.div_small, Z.mod_small by lia. cbn [Z.eqb].
    destruct (n =? 0)%Z eqn:E; [apply Z.eqb_eq in E; lia | reflexivity].
  - subst n. rewrite Z.max_l by lia. rewrite Z.div_0_l, Z.mod_0_l by lia.
    rewrite Z_div_same_full, Z_mod_same_full by lia. reflexivity.
  - rewrite Z.max_r by lia. replace (n - c)%Z with (n + (-1) * c)%Z by lia.
    rewrite Z_div_plus, Z_mod_plus by lia. destruct (n mod c =? 0)%Z; lia.
Qed.

Lemma nchunks_ceil n c : (0 <= n -> 1 <= c -> nchunks n c = (n + c - 1) / c)%Z.
Proof.
  intros Hn Hc. unfold nchunks.
  pose proof (Z.div_mod n c ltac:(lia)) as E. pose proof (Z.mod_pos_bound n c ltac:(lia)) as B.
  destruct (n mod c =? 0)%Z eqn:E0.
  - apply Z.eqb_eq in E0. apply Z.div_unique with (c - 1)%Z; lia.
  - apply Z.eqb_neq in E0. apply Z.div_unique with (n mod c - 1)%Z; lia.
Qed.

(* ---------- the loops ---------- *)
Definition loop_ok (c : nat) (init : N) (rot : Z) (P : N) : Prop :=
  (1 <= c)%nat /\ 8 * N.of_nat c <= P /\ P < 64 /\
  forall i, fits64 (rotate_mask init rot i) /\ popcount (rotate_mask init rot i) = P.

Section Loop.
  Variables (c : nat) (init : N) (rot : Z) (P : N).
  Hypothesis H : loop_ok c init rot P.

  Lemma enc_loop_S pb i src f : src <> [] ->
    enc_loop c init rot pb i src (S f) =
    enc_chunk (rotate_mask init rot i) pb (firstn c src) ++ enc_loop c init rot pb (i + 1) (skipn c src) f.
  Proof. destruct src; [contradiction | reflexivity]. Qed.

  Lemma enc_loop_nil pb i f : enc_loop c init rot pb i [] f = [].
  Proof. destruct f; reflexivity. Qed.

  Lemma dec_loop_S f i pbo rem e : rem <> O ->
    dec_loop c init rot i pbo rem e (S f) =
    match dec_chunk (rotate_mask init rot i) (Nat.min c rem) pbo (firstn chunk_len e) with
    | Err x => Err x
    | Ok (pb, bytes) =>
      match dec_loop c init rot (i + 1) (Some pb) (rem - Nat.min c rem) (skipn chunk_len e) f with
      | Err x => Err x
      | Ok rest => Ok (bytes ++ rest)
      end
    end.
  Proof. destruct rem; [contradiction | reflexivity]. Qed.

  Lemma mask_not_ones i : rotate_mask init rot i <> ones64.
  Proof.
    intro E. destruct H as (_ & _ & HP & Hm). destruct (Hm i) as [_ Hp].
    rewrite E, popcount_ones64 in Hp. lia.
  Qed.

  Lemma loop_roundtrip pb : forall fuel src i pbo,
    (length src <= fuel)%nat -> bytes_ok src -> (pbo = None \/ pbo = Some pb) ->
    dec_loop c init rot i pbo (length src) (enc_loop c init rot pb i src fuel) fuel = Ok src.
  Proof.
    destruct H as (Hc1 & HcP & HP & Hm).
    induction fuel as [|f IH]; intros src i pbo Hlen Hok Hpbo.
    - destruct src; [reflexivity | cbn in Hlen; lia].
    - destruct src as [|a t]; [reflexivity|].
      remember (a :: t) as src eqn:Es.
      assert (Hl1 : (1 <= length src)%nat) by (subst src; cbn; lia).
      rewrite enc_loop_S by (subst src; discriminate).
      rewrite dec_loop_S by lia.
      set (g := firstn c src). set (r := skipn c src).
      assert (Hg : length g = Nat.min c (length src)) by apply firstn_length.
      assert (Hr : length r = (length src - c)%nat) by apply skipn_length.
      rewrite firstn_app_exact by apply enc_chunk_length.
      rewrite skipn_app_exact by apply enc_chunk_length.
      rewrite <- Hg.
      destruct (Hm i) as [HMf HMp].
      assert (Hsplit : bytes_ok g /\ bytes_ok r).
      { apply Forall_app. unfold g, r. rewrite firstn_skipn. exact Hok. }
      destruct Hsplit as [Hgok Hrok].
      rewrite enc_dec_chunk; [ | exact HMf | apply mask_not_ones | exact Hgok | rewrite HMp; lia | lia | exact Hpbo].
      replace (length src - length g)%nat with (length r) by lia.
      rewrite IH; [ | lia | exact Hrok | right; reflexivity].
      unfold g, r. rewrite firstn_skipn. reflexivity.
  Qed.

  Lemma enc_loop_length pb : forall fuel src i, (length src <= fuel)%nat ->
    Z.of_nat (length (enc_loop c init rot pb i src fuel)) =
    (nchunks (Z.of_nat (length src)) (Z.of_nat c) * 8)%Z.
  Proof.
    destruct H as (Hc1 & _).
    induction fuel as [|f IH]; intros src i Hlen.
    - destruct src; [reflexivity | cbn in Hlen; lia].
    - destruct src as [|a t]; [reflexivity|].
      remember (a :: t) as src eqn:Es.
      assert (Hl1 : (1 <= length src)%nat) by (subst src; cbn; lia).
      rewrite enc_loop_S by (subst src; discriminate).
      rewrite app_length, enc_chunk_length, chunk_len_8, Nat2Z.inj_add.
      rewrite IH by (rewrite skipn_length; lia).
      rewrite skipn_length, Nat2Z.inj_sub_max.
      rewrite (nchunks_step (Z.of_nat (length src)) (Z.of_nat c)) by lia. lia.
  Qed.

  Lemma loop_canon : forall fuel e i pbo n b,
    dec_loop c init rot i pbo n e fuel = Ok b -> bytes_ok e -> (n <= fuel)%nat ->
    exists pb, (forall p, pbo = Some p -> pb = p) /\ length b = n /\ bytes_ok b /\
      forall f2, (n <= f2)%nat -> enc_loop c init rot pb i b f2 = e.
  Proof.
    destruct H as (Hc1 & HcP & HP & Hm).
    assert (Base : forall e pbo b i, match e with [] => Ok [] | _ :: _ => Err ErrInternal end = Ok b ->
       exists pb : bool, (forall p, pbo = Some p -> pb = p) /\ length b = O /\ bytes_ok b /\
         forall f2, (0 <= f2)%nat -> enc_loop c init rot pb i b f2 = e).
    { intros e pbo b i Hd. destruct e; [|discriminate]. inversion Hd; subst.
      exists (match pbo with Some p => p | None => false end).
      split; [intros p ->; reflexivity|]. split; [reflexivity|]. split; [constructor|].
      intros f2 _. apply enc_loop_nil. }
    induction fuel as [|f IH]; intros e i pbo n b Hdec Hok Hn.
    - cbn [dec_loop] in Hdec. destruct n; [|discriminate]. apply Base. exact Hdec.
    - destruct n as [|n'].
      + cbn [dec_loop] in Hdec. apply Base. exact Hdec.
      + remember (S n') as n eqn:En.
        rewrite dec_loop_S in Hdec by lia.
        set (L := Nat.min c n) in *. set (M := rotate_mask init rot i) in *.
        destruct (dec_chunk M L pbo (firstn chunk_len e)) as [[pb bs]|] eqn:Ec; [|discriminate].
        destruct (dec_loop c init rot (i + 1) (Some pb) (n - L) (skipn chunk_len e) f) as [rest|] eqn:Er; [|discriminate].
        inversion Hdec; subst b. clear Hdec.
        rewrite <- (firstn_skipn chunk_len e) in Hok. apply Forall_app in Hok. destruct Hok as [Hok1 Hok2].
        destruct (Hm i) as [HMf HMp]. fold M in HMf, HMp.
        assert (HL1 : 8 * N.of_nat L <= popcount M) by (rewrite HMp; unfold L; lia).
        assert (HL2 : 8 * N.of_nat L < 64) by (unfold L; lia).
        assert (HL3 : (1 <= L)%nat) by (unfold L; lia).
        apply dec_enc_chunk in Ec; [| exact HMf | exact HL1 | exact HL2 | exact Hok1].
        destruct Ec as (Hp & Hgl & Hbl & Hbok & Henc).
        apply IH in Er; [| exact Hok2 | lia].
        destruct Er as (pb2 & Hp2 & Hrl & Hrok & Hrenc).
        assert (pb2 = pb) by (apply Hp2; reflexivity). subst pb2.
        exists pb. split; [exact Hp|]. split; [rewrite app_length; lia|].
        split; [apply Forall_app; split; assumption|].
        intros f2 Hf2. destruct f2 as [|f2]; [lia|].
        rewrite enc_loop_S by (destruct bs; [cbn in Hbl; lia | discriminate]).
        assert (Hcase : (c <= n \/ n < c)%nat) by lia. destruct Hcase as [Hcn|Hcn].
        * rewrite firstn_app_exact, skipn_app_exact by (unfold L in Hbl; lia).
          fold M. rewrite Henc, Hrenc by lia. apply firstn_skipn.
        * assert (rest = []) by (destruct rest; [reflexivity | cbn in Hrl; unfold L in Hrl; lia]).
          subst rest. rewrite app_nil_r.
          rewrite firstn_all2 by (unfold L in Hbl; lia). rewrite skipn_all2 by (unfold L in Hbl; lia).
          fold M. rewrite Henc. rewrite (Hrenc f2) by lia. apply firstn_skipn.
  Qed.
End Loop.

(* ---------- top level ---------- *)
Lemma enc_len_ok n mode c w : mode_params mode = Some (c, w) -> (1 <= n)%Z -> (nchunks n c <= 8191)%Z ->
  enc_len n mode = Ok (nchunks n c * 8)%Z.
Proof.
  intros Hm Hn Hc. unfold enc_len. rewrite Hm.
  destruct (n <=? 0)%Z eqn:E; [apply Z.leb_le in E; lia|].
  change (65535 / C17_lowEntropyChunkLen)%Z with 8191%Z. change C17_lowEntropyChunkLen with 8%Z.
  pose proof (Z.gtb_spec (nchunks n c) 8191) as S. destruct S; [lia | reflexivity].
Qed.

Lemma enc_len_inv n mode x : enc_len n mode = Ok x ->
  exists c w, mode_params mode = Some (c, w) /\ (1 <= n)%Z /\ (nchunks n c <= 8191)%Z /\ x = (nchunks n c * 8)%Z.
Proof.
  unfold enc_len. destruct (mode_params mode) as [[c w]|]; [|discriminate].
  destruct (n <=? 0)%Z eqn:E; [discriminate|]. apply Z.leb_gt in E.
  change (65535 / C17_lowEntropyChunkLen)%Z with 8191%Z. change C17_lowEntropyChunkLen with 8%Z.
  pose proof (Z.gtb_spec (nchunks n c) 8191) as S. destruct S; [discriminate|].
  intro Hx; inversion Hx. exists c, w. repeat split; lia.
Qed.

Lemma validate_params_ok mode hm rot c w :
  mode_params mode = Some (c, w) -> Z.of_N (popcount hm) = w -> valid_rotation rot = true ->
  validate_params mode hm rot = Ok (c, w).
Proof. intros Hm Hw Hr. unfold validate_params. rewrite Hm, Hw, Z.eqb_refl, Hr. reflexivity. Qed.

Lemma validate_params_inv mode hm rot p : validate_params mode hm rot = Ok p ->
  exists c w, p = (c, w) /\ mode_params mode = Some (c, w) /\ Z.of_N (popcount hm) = w /\ valid_rotation rot = true.
Proof.
  unfold validate_params. destruct (mode_params mode) as [[c w]|]; [|discriminate].
  destruct (Z.of_N (popcount hm) =? w)%Z eqn:E; [|discriminate]. apply Z.eqb_eq in E.
  destruct (valid_rotation rot) eqn:Er; [|discriminate].
  intro Hx; inversion Hx. exists c, w. repeat split; assumption.
Qed.

Lemma loop_ok_inst mode c w hm rot :
  mode_params mode = Some (c, w) -> hm < 2 ^ 32 -> Z.of_N (popcount hm) = w ->
  loop_ok (Z.to_nat c) (repeat32 hm) rot (popcount (repeat32 hm)).
Proof.
  intros Hm Hh Hw. destruct (mode_params_facts _ _ _ Hm) as [Hc Hw2].
  pose proof (popcount_repeat32 hm Hh) as Hp. pose proof (repeat32_lt hm Hh) as Hlt.
  unfold loop_ok. rewrite Hp. repeat split; try lia.
  - apply fits64_lt. apply rotate_mask_facts, Hlt.
  - destruct (rotate_mask_facts (repeat32 hm) rot i Hlt) as [_ E]. rewrite E. exact Hp.
Qed.

Lemma enc_loop_ok c init rot pb : forall f i src, bytes_ok (enc_loop c init rot pb i src f).
Proof.
  induction f as [|f IH]; intros i src; [constructor|].
  destruct src as [|a t]; [constructor|]. cbn [enc_loop]. apply Forall_app. split; [apply enc_chunk_ok | apply IH].
Qed.

Theorem le_roundtrip body mode hm rot pb c w :
  bytes_ok body -> hm < 2 ^ 32 -> pb <= 1 ->
  mode_params mode = Some (c, w) -> Z.of_N (popcount hm) = w -> valid_rotation rot = true ->
  (1 <= length body)%nat -> (nchunks (Z.of_nat (length body)) c <= 8191)%Z ->
  exists e, encode body mode hm rot pb = Ok e /\
    Z.of_nat (length e) = (8 * nchunks (Z.of_nat (length body)) c)%Z /\
    nchunks (Z.of_nat (length body)) c = ((Z.of_nat (length body) + c - 1) / c)%Z /\
    bytes_ok e /\
    decode e (Z.of_nat (length body)) mode hm rot = Ok body.
Proof.
  intros Hok Hh Hpb Hm Hw Hr Hl Hn.
  destruct (mode_params_facts _ _ _ Hm) as [Hc Hw2].
  pose proof (loop_ok_inst mode c w hm rot Hm Hh Hw) as HL.
  unfold encode. rewrite (validate_params_ok _ _ _ c w) by assumption.
  destruct (1 <? pb) eqn:E; [apply N.ltb_lt in E; lia|].
  rewrite (enc_len_ok _ _ c w) by (try assumption; lia).
  eexists. split; [reflexivity|].
  set (e := enc_loop _ _ _ _ _ _ _).
  assert (Hlen : Z.of_nat (length e) = (nchunks (Z.of_nat (length body)) c * 8)%Z).
  { unfold e. rewrite (enc_loop_length _ _ _ _ HL) by lia. rewrite Z2Nat.id by lia. reflexivity. }
  split; [lia|]. split; [apply nchunks_ceil; lia|].
  split.
  { unfold e. apply enc_loop_ok. }
  unfold decode. rewrite (validate_params_ok _ _ _ c w) by assumption.
  rewrite (enc_len_ok _ _ c w) by (try assumption; lia).
  rewrite Hlen, Z.eqb_refl. cbn [negb]. rewrite Nat2Z.id.
  apply (loop_roundtrip _ _ _ _ HL); [lia | exact Hok | left; reflexivity].
Qed.

Theorem le_canonical e n mode hm rot b :
  bytes_ok e -> hm < 2 ^ 32 ->
  decode e n mode hm rot = Ok b ->
  exists pb, pb <= 1 /\ encode b mode hm rot pb = Ok e /\ Z.of_nat (length b) = n /\ bytes_ok b.
Proof.
  intros Hok Hh. unfold decode.
  destruct (validate_params mode hm rot) as [p|] eqn:Ev; [|discriminate].
  destruct (validate_params_inv _ _ _ _ Ev) as (c & w & -> & Hm & Hw & Hr).
  destruct (enc_len n mode) as [want|] eqn:El; [|discriminate].
  destruct (enc_len_inv _ _ _ El) as (c' & w' & Hm' & Hn & Hnc & Hwant).
  rewrite Hm in Hm'. inversion Hm'; subst c' w'. clear Hm'.
  destruct (negb (Z.of_nat (length e) =? want)%Z); [discriminate|].
  pose proof (loop_ok_inst mode c w hm rot Hm Hh Hw) as HL.
  intro Hd. apply (loop_canon _ _ _ _ HL) in Hd; [| exact Hok | lia].
  destruct Hd as (pb & _ & Hlen & Hbok & Henc).
  exists (if pb then 1 else 0). split; [destruct pb; lia|].
  assert (Hlb : Z.of_nat (length b) = n) by lia.
  split; [| split; assumption].
  unfold encode. rewrite Ev.
  replace (1 <? (if pb then 1 else 0)) with false by (destruct pb; reflexivity).
  rewrite Hlb, El. f_equal.
  replace ((if pb then 1 else 0) =? 1) with pb by (destruct pb; reflexivity).
  apply Henc. lia.
Qed.

(* the decoder accepts exactly the encoder's images *)
Theorem le_accepts_iff_canonical e n mode hm rot b :
  bytes_ok e -> hm < 2 ^ 32 ->
  (decode e n mode hm rot = Ok b <->
   exists pb, pb <= 1 /\ encode b mode hm rot pb = Ok e /\ Z.of_nat (length b) = n /\ bytes_ok b).
Proof.
  intros Hok Hh. split; [apply le_canonical; assumption|].
  intros (pb & Hpb & Henc & Hn & Hbok).
  assert (Henc' := Henc). unfold encode in Henc'.
  destruct (validate_params mode hm rot) as [p|] eqn:Ev; [|discriminate].
  destruct (validate_params_inv _ _ _ _ Ev) as (c & w & -> & Hm & Hw & Hr).
  destruct (1 <? pb); [discriminate|].
  destruct (enc_len (Z.of_nat (length b)) mode) as [x|] eqn:El; [|discriminate].
  destruct (enc_len_inv _ _ _ El) as (c' & w' & Hm' & Hn1 & Hnc & _).
  rewrite Hm in Hm'. inversion Hm'; subst c' w'. clear Hm' Henc'.
  destruct (le_roundtrip b mode hm rot pb c w Hbok Hh Hpb Hm Hw Hr ltac:(lia) Hnc) as (e' & He' & _ & _ & _ & Hdec).
  rewrite Henc in He'. inversion He'; subst e'. rewrite <- Hn. exact Hdec.
Qed.

Theorem le_rejects e body n mode hm rot pb :
  (mode_params mode = None ->
     encode body mode hm rot pb = Err ErrMode /\ decode e n mode hm rot = Err ErrMode) /\
  (forall c w, mode_params mode = Some (c, w) -> Z.of_N (popcount hm) <> w ->
     encode body mode hm rot pb = Err ErrWeight /\ decode e n mode hm rot = Err ErrWeight) /\
  (forall c w, mode_params mode = Some (c, w) -> Z.of_N (popcount hm) = w -> valid_rotation rot = false ->
     encode body mode hm rot pb = Err ErrRotation /\ decode e n mode hm rot = Err ErrRotation) /\
  (forall c w, mode_params mode = Some (c, w) -> Z.of_N (popcount hm) = w -> valid_rotation rot = true ->
     (1 < pb -> encode body mode hm rot pb = Err ErrPadBit) /\
     (pb <= 1 -> body = [] -> encode body mode hm rot pb = Err ErrLen) /\
     (pb <= 1 -> (nchunks (Z.of_nat (length body)) c > 8191)%Z -> encode body mode hm rot pb = Err ErrTooBig) /\
     ((n <= 0)%Z -> decode e n mode hm rot = Err ErrLen) /\
     ((1 <= n)%Z -> (nchunks n c > 8191)%Z -> decode e n mode hm rot = Err ErrTooBig) /\
     ((1 <= n)%Z -> (nchunks n c <= 8191)%Z -> Z.of_nat (length e) <> (8 * nchunks n c)%Z ->
        decode e n mode hm rot = Err ErrEncLen)).
Proof.
  unfold encode, decode, validate_params, enc_len.
  split; [intros ->; split; reflexivity|].
  split.
  { intros c w -> Hw. apply Z.eqb_neq in Hw. rewrite Hw. split; reflexivity. }
  split.
  { intros c w -> Hw Hr. rewrite Hw, Z.eqb_refl, Hr. split; reflexivity. }
  intros c w Hm Hw Hr. rewrite Hm, Hw, Z.eqb_refl, Hr.
  change (65535 / C17_lowEntropyChunkLen)%Z with 8191%Z. change C17_lowEntropyChunkLen with 8%Z.
  split; [intro H; apply N.ltb_lt in H; rewrite H; reflexivity|].
  split; [intros H ->; destruct (1 <? pb) eqn:E; [apply N.ltb_lt in E; lia | reflexivity]|].
  split.
  { intros H Hn. destruct (1 <? pb) eqn:E; [apply N.ltb_lt in E; lia|].
    destruct (Z.of_nat (length body) <=? 0)%Z eqn:E0.
    - apply Z.leb_le in E0. assert (Hz : Z.of_nat (length body) = 0%Z) by lia. rewrite Hz in Hn.
      destruct (mode_params_facts _ _ _ Hm) as [Hc _].
      unfold nchunks in Hn. rewrite Z.div_0_l, Z.mod_0_l in Hn by lia. cbn in Hn. lia.
    - pose proof (Z.gtb_spec (nchunks (Z.of_nat (length body)) c) 8191) as S. destruct S; [reflexivity | lia]. }
  split; [intro H; apply Z.leb_le in H; rewrite H; reflexivity|].
  split.
  { intros H Hn. destruct (n <=? 0)%Z eqn:E0; [apply Z.leb_le in E0; lia|].
    pose proof (Z.gtb_spec (nchunks n c) 8191) as S. destruct S; [reflexivity | lia]. }
  intros H Hn Hl. destruct (n <=? 0)%Z eqn:E0; [apply Z.leb_le in E0; lia|].
  pose proof (Z.gtb_spec (nchunks n c) 8191) as S. destruct S; [lia|].
  destruct (Z.of_nat (length e) =? nchunks n c * 8)%Z eqn:E1; [apply Z.eqb_eq in E1; lia | reflexivity].
Qed.

Theorem meta_ties_lengths proto mode hm epl pl rot :
  validate_meta proto mode hm epl pl rot = Ok tt <->
  is_le_proto proto = true /\ (epl <= C17_maxPDU)%Z /\
  exists c w, mode_params mode = Some (c, w) /\ Z.of_N (popcount hm) = w /\ valid_rotation rot = true /\
    ((epl = 0 /\ pl = 0)%Z \/
     (1 <= epl /\ nchunks epl c <= 8191 /\ pl = 8 * nchunks epl c)%Z).
Proof.
  unfold validate_meta. split.
  - destruct (is_le_proto proto); cbn [negb]; [|discriminate].
    pose proof (Z.gtb_spec epl C17_maxPDU) as S. destruct S; [discriminate|].
    destruct (pl mod C17_lowEntropyChunkLen =? 0)%Z; cbn [negb]; [|discriminate].
    destruct (validate_params mode hm rot) as [p|] eqn:Ev; [|discriminate].
    destruct (validate_params_inv _ _ _ _ Ev) as (c & w & -> & Hm & Hw & Hr).
    destruct (epl =? 0)%Z eqn:E0.
    + apply Z.eqb_eq in E0. destruct (pl =? 0)%Z eqn:E1; [|discriminate]. apply Z.eqb_eq in E1.
      intros _. split; [reflexivity|]. split; [lia|]. exists c, w. repeat split; try assumption. left; lia.
    + destruct (enc_len epl mode) as [want|] eqn:El; [|discriminate].
      destruct (enc_len_inv _ _ _ El) as (c' & w' & Hm' & Hn & Hnc & Hwant).
      rewrite Hm in Hm'. inversion Hm'; subst c' w'.
      destruct (pl =? want)%Z eqn:E1; [|discriminate]. apply Z.eqb_eq in E1.
      intros _. split; [reflexivity|]. split; [lia|]. exists c, w. repeat split; try assumption. right; lia.
  - intros (Hp & Hepl & c & w & Hm & Hw & Hr & Hcase). rewrite Hp. cbn [negb].
    pose proof (Z.gtb_spec epl C17_maxPDU) as S. destruct S; [lia|].
    rewrite (validate_params_ok _ _ _ c w) by assumption.
    change C17_lowEntropyChunkLen with 8%Z.
    destruct Hcase as [[-> ->] | (Hn & Hnc & ->)].
    + reflexivity.
    + replace ((8 * nchunks epl c) mod 8)%Z with 0%Z by (rewrite Z.mul_comm, Z.mod_mul by lia; reflexivity).
      cbn [Z.eqb negb].
      destruct (epl =? 0)%Z eqn:E0; [apply Z.eqb_eq in E0; lia|].
      rewrite (enc_len_ok _ _ c w) by assumption.
      replace (nchunks epl c * 8)%Z with (8 * nchunks epl c)%Z by lia. rewrite Z.eqb_refl. reflexivity.
Qed.

(* the 31 valid rotation codes *)
Lemma valid_rotation_spec r :
  valid_rotation r = true <->
  (r = 0 \/ 1 <= r <= 15 \/ exists k, 1 <= k <= 15 /\ r = 16 * k)%Z.
Proof.
  unfold valid_rotation.
  change C17_rotNone with 0%Z. change C17_rotRight1 with 1%Z. change C17_rotRight15 with 15%Z.
  change C17_rotLeft1 with 16%Z. change C17_rotLeft15 with 240%Z.
  rewrite !orb_true_iff, !andb_true_iff, !Z.eqb_eq, !Z.leb_le.
  split.
  - intros [[H|H]|[[H1 H2] H3]]; [left; exact H | right; left; exact H | right; right].
    exists (r / 16)%Z. pose proof (Z.div_mod r 16 ltac:(lia)). lia.
  - intros [H|[H|(k & Hk & ->)]]; [left; left; exact H | left; right; exact H | right].
    rewrite Z.mul_comm, Z.mod_mul by lia. lia.
Qed.

(* ---------- non-vacuity: concrete inputs satisfying the hypotheses of the theorems ---------- *)
Example ex_roundtrip_hyps :
  let body := [1; 2; 3; 4; 5; 6; 7; 8; 9; 250; 251]%N in
  bytes_ok body /\ 1048575 < 2 ^ 32 /\ mode_params 2 = Some (5, 20)%Z /\
  Z.of_N (popcount 1048575) = 20%Z /\ valid_rotation 240 = true /\
  (nchunks (Z.of_nat (length body)) 5 <= 8191)%Z.
Proof.
  cbv zeta. split; [repeat constructor|]. split; [reflexivity|]. split; [reflexivity|].
  split; [reflexivity|]. split; [reflexivity|]. vm_compute. congruence.
Qed.
Example ex_roundtrip_run :
  encode [1; 2; 3; 4; 5; 6; 7; 8; 9; 250; 251]%N 2 1048575 240 1 =
    Ok [255; 240; 16; 32; 255; 243; 4; 5; 6; 7; 127; 248; 128; 159; 255; 250; 255; 255; 255; 255; 255; 255; 255; 251]%N /\
  decode [255; 240; 16; 32; 255; 243; 4; 5; 6; 7; 127; 248; 128; 159; 255; 250; 255; 255; 255; 255; 255; 255; 255; 251]%N
    11 2 1048575 240 = Ok [1; 2; 3; 4; 5; 6; 7; 8; 9; 250; 251]%N.
Proof. split; vm_compute; reflexivity. Qed.

Example ex_rejections :
  decode [241;242;243;244;245;246;247;240]%N 4 1 doc_hm 0 = Ok [18;52;86;112]%N /\
  decode [241;242;243;244;245;246;231;248]%N 4 1 doc_hm 0 = Err ErrMixed /\
  decode ([241;242;243;244;245;246;247;248] ++ [1;2;3;4;5;6;7;8])%N 8 1 doc_hm 0 = Err ErrNonUniform /\
  decode ([241;242;243;244;245;246;247;248] ++ [255;255;255;255;245;246;247;248])%N 6 1 doc_hm 0 = Ok [18;52;86;120;86;120]%N /\
  decode ([241;242;243;244;245;246;247;248] ++ [255;255;255;239;245;246;247;248])%N 6 1 doc_hm 0 = Err ErrNonUniform /\
  decode [1;2;3;4;5;6;7;8]%N 5 1 doc_hm 0 = Err ErrEncLen /\
  validate_meta 10 1 doc_hm 4 8 0 = Ok tt /\ validate_meta 10 1 doc_hm 4 16 0 = Err ErrPayloadLen /\
  validate_meta 11 4 268435455 32768 37456 240 = Ok tt /\ validate_meta 10 1 doc_hm 32768 65536 0 = Err ErrTooBig.
Proof. repeat split; vm_compute; reflexivity. Qed.
