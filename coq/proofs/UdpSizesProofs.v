(* The tie between UdpProto (C02) and Sizes (C14): what a peer may send always fits what this end can receive. *)
From Coq Require Import ZArith Lia List Bool.
From M Require Import gen.Consts model.Sizes proofs.SizesProofs.
Import ListNotations.
Open Scope Z_scope.

(* the receive buffer of PacketUnderlay.readOneSegment as observed by the behavioural probe (consts_c02.go) for
   underlays whose LOCAL mtu is 1280, 1400, 1500, client and server *)
Definition read_buf_lens : list Z :=
  [C02_readBufLen_client_mtu1280; C02_readBufLen_client_mtu1400; C02_readBufLen_client_mtu1500;
   C02_readBufLen_server_mtu1280; C02_readBufLen_server_mtu1400; C02_readBufLen_server_mtu1500].

(* the obligation on the regenerated constants: the buffer does not depend on the local MTU and holds the largest
   legal datagram *)
Lemma read_buf_covers_max_mtu : forall b, In b read_buf_lens -> C14_ServerMaxMTU <= b.
Proof.
  intros b H. unfold read_buf_lens in H. cbn in H.
  repeat (destruct H as [<- | H]; [vm_compute; discriminate|]). contradiction.
Qed.

Lemma peer_mtu_independent : forall peer_mtu mode is_client first n cfg_mid cfg_end s p1 p2 b,
  mtu_ok peer_mtu -> mode_ok mode -> 0 <= n ->
  emitted is_client first peer_mtu C14_TransportPacket mode n s ->
  draws_ok peer_mtu C14_TransportPacket cfg_mid cfg_end s p1 p2 ->
  In b read_buf_lens -> dgram_len s p1 p2 <= b.
Proof.
  intros peer_mtu mode is_client first n c1 c2 s p1 p2 b Hm Hmode Hn He Hd Hb.
  pose proof (c14_mtu _ _ _ _ _ _ _ _ _ _ Hm Hmode Hn He Hd) as H1.
  pose proof (read_buf_covers_max_mtu _ Hb) as H2. unfold mtu_ok in Hm. lia.
Qed.

(* a buffer sized by a smaller local MTU would not do: a peer with the maximal MTU sends datagrams of exactly that size *)
Lemma local_mtu_buffer_too_small : exists s p1 p2,
  emitted true false C14_ServerMaxMTU C14_TransportPacket C14_ModeOff 4000 s /\
  draws_ok C14_ServerMaxMTU C14_TransportPacket None None s p1 p2 /\ dgram_len s p1 p2 > C14_ServerMinMTU.
Proof.
  exists (mkSeg KData 2 1412 0 1412), 0, 0.
  split; [|split].
  - left. vm_compute. auto.
  - unfold draws_ok. vm_compute. repeat split; discriminate.
  - vm_compute. reflexivity.
Qed.
