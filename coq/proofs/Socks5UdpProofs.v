(* C18 — proofs about model/Socks5Udp.v *)
From Coq Require Import NArith ZArith List Bool Lia.
From Coq Require Import ZifyN ZifyNat ZifyBool.
From M Require Import gen.Consts model.Frame model.Socks5Udp proofs.FrameProofs.
Import ListNotations.
Open Scope N_scope.
Ltac Zify.zify_post_hook ::= Z.div_mod_to_equations.

Lemma socks5udp_consts_ok :
  ATYP4 = 1 /\ ATYPD = 3 /\ ATYP6 = 4 /\ SHORT = 6 /\ WSHORT = 6 /\ WROOM = 256.
Proof. vm_compute. repeat split; reflexivity. Qed.

(* ---------- helpers ---------- *)
Lemma splitN_0 : forall l, splitN l 0 = Some ([], l).
Proof. destruct l; reflexivity. Qed.

Lemma splitN_cons : forall x t n, n <> 0 ->
  splitN (x :: t) n = match splitN t (n - 1) with Some (a, r) => Some (x :: a, r) | None => None end.
Proof. intros x t n H. cbn [splitN]. replace (n =? 0) with false by (symmetry; apply N.eqb_neq; exact H). reflexivity. Qed.

Lemma splitN_app : forall a r, splitN (a ++ r) (lenN a) = Some (a, r).
Proof.
  induction a as [|x a IH]; intros r; cbn [app lenN].
  - apply splitN_0.
  - rewrite splitN_cons by lia. replace (N.succ (lenN a) - 1) with (lenN a) by lia. rewrite IH. reflexivity.
Qed.

Lemma splitN_len : forall l n a r, splitN l n = Some (a, r) -> lenN a = n /\ l = a ++ r.
Proof.
  induction l as [|x t IH]; intros n a r H.
  - cbn [splitN] in H. destruct (N.eqb_spec n 0) as [->|Hn]; [|discriminate]. inversion H. split; reflexivity.
  - destruct (N.eq_dec n 0) as [->|Hn].
    + rewrite splitN_0 in H. inversion H. split; reflexivity.
    + rewrite splitN_cons in H by exact Hn. destruct (splitN t (n - 1)) as [[a' r']|] eqn:E; [|discriminate].
      inversion H. subst. destruct (IH _ _ _ E) as [Hl ->]. split; [cbn [lenN]; lia|reflexivity].
Qed.

Lemma eqbl_eq : forall a b, eqbl a b = true -> a = b.
Proof.
  induction a as [|x a IH]; destruct b as [|y b]; cbn [eqbl]; intros H; try discriminate; [reflexivity|].
  apply andb_true_iff in H. destruct H as [H1 H2]. apply N.eqb_eq in H1. rewrite (IH _ H2), H1. reflexivity.
Qed.

Lemma eqbl_refl : forall a, eqbl a a = true.
Proof. induction a as [|x a IH]; cbn [eqbl]; [reflexivity|rewrite N.eqb_refl, IH; reflexivity]. Qed.

Lemma key_eqb_eq : forall k1 k2, key_eqb k1 k2 = true -> k1 = k2.
Proof.
  intros [a p] [b q]. unfold key_eqb. cbn [fst snd]. intros H. apply andb_true_iff in H. destruct H as [H1 H2].
  apply eqbl_eq in H1. apply N.eqb_eq in H2. subst. reflexivity.
Qed.

Lemma to4_len : forall i v, to4 i = Some v -> lenN v = 4.
Proof.
  intros i v. unfold to4. destruct (N.eqb_spec (lenN i) 4) as [H4|H4].
  - intros H. inversion H. subst. exact H4.
  - destruct (N.eqb_spec (lenN i) 16) as [H16|H16]; [|discriminate].
    destruct (splitN i 12) as [[p w]|] eqn:E; [|discriminate].
    destruct (eqbl p v4prefix); [|discriminate]. intros H. inversion H. subst w.
    destruct (splitN_len _ _ _ _ E) as [Hp ->]. rewrite lenN_app in H16. lia.
Qed.

Lemma to4_of_len4 : forall v, lenN v = 4 -> to4 v = Some v.
Proof. intros v H. unfold to4. rewrite H. reflexivity. Qed.

Lemma to16_len : forall i v, to16 i = Some v -> lenN v = 16.
Proof.
  intros i v. unfold to16. destruct (N.eqb_spec (lenN i) 4) as [H4|H4].
  - intros H. assert (Hv : v = v4prefix ++ i) by congruence. rewrite Hv, lenN_app, H4. reflexivity.
  - destruct (N.eqb_spec (lenN i) 16) as [H16|H16]; [|discriminate]. intros H. inversion H. subst. exact H16.
Qed.

Lemma to4_none_to16 : forall i v, to4 i = None -> to16 i = Some v -> v = i.
Proof.
  intros i v. unfold to4, to16. destruct (lenN i =? 4); [discriminate|].
  destruct (lenN i =? 16); [|discriminate]. intros _ H. inversion H. reflexivity.
Qed.

Lemma port_split : forall p, p < 65536 -> (p mod 65536) / 256 * 256 + p mod 256 = p.
Proof. intros p H. lia. Qed.

(* ---------- build / parse round trip ---------- *)
Definition canon (a : addrspec) : addrspec :=
  match to4 (ip a) with
  | Some v4 => mkAddr [] v4 (port a)
  | None => match to16 (ip a) with
            | Some v6 => mkAddr [] v6 (port a)
            | None => mkAddr (fqdn a) [] (port a)
            end
  end.

Lemma read_addr_built : forall a h rest,
  port a < 65536 ->
  (to16 (ip a) = None -> lenN (fqdn a) <= 255) ->
  build_addr a = Some h ->
  read_addr (h ++ rest) = inr (canon a, h, rest) /\ 4 <= lenN h.
Proof.
  intros a h rest Hp Hf Hb. unfold build_addr in Hb. unfold canon.
  destruct (to4 (ip a)) as [v4|] eqn:E4.
  - inversion Hb. subst h. clear Hb. pose proof (to4_len _ _ E4) as L4.
    split; [|cbn [lenN]; rewrite lenN_app; lia].
    cbn [app read_addr]. rewrite N.eqb_refl. rewrite <- app_assoc. rewrite <- L4. rewrite splitN_app.
    unfold portbytes. cbn [app read_port]. rewrite port_split by exact Hp. reflexivity.
  - destruct (to16 (ip a)) as [v6|] eqn:E6.
    + inversion Hb. subst h. clear Hb. pose proof (to16_len _ _ E6) as L6.
      split; [|cbn [lenN]; rewrite lenN_app; lia].
      cbn [app read_addr]. change (ATYP6 =? ATYP4) with false. cbn match. rewrite N.eqb_refl.
      rewrite <- app_assoc. rewrite <- L6. rewrite splitN_app.
      unfold portbytes. cbn [app read_port]. rewrite port_split by exact Hp. reflexivity.
    + destruct (fqdn a) as [|c name] eqn:Ef; [discriminate|]. inversion Hb. subst h. clear Hb.
      specialize (Hf eq_refl).
      split; [|cbn [lenN app]; rewrite lenN_app; unfold portbytes; cbn [lenN]; lia].
      cbn [app read_addr]. change (ATYPD =? ATYP4) with false. change (ATYPD =? ATYP6) with false. cbn match.
      rewrite N.eqb_refl. rewrite <- app_assoc.
      replace (N.succ (lenN name) mod 256) with (lenN (c :: name)) by (cbn [lenN] in *; lia).
      change (c :: name ++ portbytes (port a) ++ rest) with ((c :: name) ++ portbytes (port a) ++ rest).
      rewrite splitN_app.
      unfold portbytes. cbn [app read_port]. rewrite port_split by exact Hp. reflexivity.
Qed.

Lemma udp_header_roundtrip : forall a payload pkt,
  port a < 65536 ->
  (to16 (ip a) = None -> lenN (fqdn a) <= 255) ->
  build_dgram a payload = Some pkt ->
  exists hdr, build_dgram a [] = Some hdr /\ pkt = hdr ++ payload /\
              parse pkt = POk (canon a) hdr payload.
Proof.
  intros a payload pkt Hp Hf Hb. unfold build_dgram in *.
  destruct (build_addr a) as [h|] eqn:E; [|discriminate]. inversion Hb. subst pkt. clear Hb.
  exists (0 :: 0 :: 0 :: h). rewrite app_nil_r.
  destruct (read_addr_built a h payload Hp Hf E) as [Hr Hl].
  split; [reflexivity|]. split; [reflexivity|].
  unfold parse. destruct socks5udp_consts_ok as (_ & _ & _ & Hs & _). rewrite Hs.
  replace (lenN (0 :: 0 :: 0 :: h ++ payload) <=? 6) with false
    by (symmetry; apply N.leb_gt; cbn [lenN]; rewrite lenN_app; lia).
  cbn [negb andb N.eqb]. rewrite Hr. reflexivity.
Qed.

(* ---------- the parser rejects malformed headers ---------- *)
Lemma parse_short : forall pkt, lenN pkt <= SHORT -> parse pkt = PErr PNoData.
Proof. intros pkt H. unfold parse. replace (lenN pkt <=? SHORT) with true by (symmetry; apply N.leb_le; exact H). reflexivity. Qed.

Lemma parse_reserved : forall b0 b1 b2 r, SHORT < lenN (b0 :: b1 :: b2 :: r) -> (b0 <> 0 \/ b1 <> 0) ->
  parse (b0 :: b1 :: b2 :: r) = PErr PInvalid.
Proof.
  intros b0 b1 b2 r H Hb. unfold parse.
  replace (lenN (b0 :: b1 :: b2 :: r) <=? SHORT) with false by (symmetry; apply N.leb_gt; exact H).
  replace ((b0 =? 0) && (b1 =? 0)) with false; [reflexivity|].
  symmetry. apply andb_false_iff. destruct Hb as [Hb|Hb]; [left|right]; apply N.eqb_neq; exact Hb.
Qed.

Lemma parse_fragment : forall b2 r, SHORT < lenN (0 :: 0 :: b2 :: r) -> b2 <> 0 ->
  parse (0 :: 0 :: b2 :: r) = PErr PUnsupported.
Proof.
  intros b2 r H Hb. unfold parse.
  replace (lenN (0 :: 0 :: b2 :: r) <=? SHORT) with false by (symmetry; apply N.leb_gt; exact H).
  cbn [N.eqb andb negb]. replace (b2 =? 0) with false by (symmetry; apply N.eqb_neq; exact Hb). reflexivity.
Qed.

Lemma parse_bad_atyp : forall t r, SHORT < lenN (0 :: 0 :: 0 :: t :: r) ->
  t <> ATYP4 -> t <> ATYP6 -> t <> ATYPD ->
  parse (0 :: 0 :: 0 :: t :: r) = PErr PAddrType.
Proof.
  intros t r H H4 H6 Hd. unfold parse.
  replace (lenN (0 :: 0 :: 0 :: t :: r) <=? SHORT) with false by (symmetry; apply N.leb_gt; exact H).
  cbn [N.eqb andb negb read_addr].
  replace (t =? ATYP4) with false by (symmetry; apply N.eqb_neq; exact H4).
  replace (t =? ATYP6) with false by (symmetry; apply N.eqb_neq; exact H6).
  replace (t =? ATYPD) with false by (symmetry; apply N.eqb_neq; exact Hd). reflexivity.
Qed.

(* what was parsed is a split of the packet; the header alone determines the address *)
Lemma read_port_inv : forall f i c r a c' rest, read_port f i c r = inr (a, c', rest) ->
  exists hi lo, r = hi :: lo :: rest /\ c' = c ++ [hi; lo] /\ a = mkAddr f i (hi * 256 + lo).
Proof.
  intros f i c r a c' rest H. unfold read_port in H. destruct r as [|hi [|lo r']]; try discriminate.
  inversion H. subst. exists hi, lo. repeat split.
Qed.

Lemma read_addr_stable : forall r a c rest, read_addr r = inr (a, c, rest) ->
  r = c ++ rest /\ 4 <= lenN c /\ forall rest', read_addr (c ++ rest') = inr (a, c, rest').
Proof.
  intros r a c rest H. destruct r as [|t r1]; [discriminate|]. cbn [read_addr] in H.
  destruct (N.eqb_spec t ATYP4) as [T4|T4].
  - destruct (splitN r1 4) as [[a4 r2]|] eqn:E; [|discriminate].
    destruct (splitN_len _ _ _ _ E) as [L ->].
    destruct (read_port_inv _ _ _ _ _ _ _ H) as (hi & lo & -> & -> & ->).
    split; [cbn [app]; rewrite <- app_assoc; reflexivity|].
    split; [cbn [app lenN]; rewrite lenN_app; cbn [lenN]; lia|].
    intros rest'. cbn [app read_addr]. replace (t =? ATYP4) with true by (symmetry; apply N.eqb_eq; exact T4).
    rewrite <- app_assoc. rewrite <- L at 1. rewrite splitN_app. reflexivity.
  - destruct (N.eqb_spec t ATYP6) as [T6|T6].
    + destruct (splitN r1 16) as [[a6 r2]|] eqn:E; [|discriminate].
      destruct (splitN_len _ _ _ _ E) as [L ->].
      destruct (read_port_inv _ _ _ _ _ _ _ H) as (hi & lo & -> & -> & ->).
      split; [cbn [app]; rewrite <- app_assoc; reflexivity|].
      split; [cbn [app lenN]; rewrite lenN_app; cbn [lenN]; lia|].
      intros rest'. cbn [app read_addr]. replace (t =? ATYP4) with false by (symmetry; apply N.eqb_neq; exact T4).
      replace (t =? ATYP6) with true by (symmetry; apply N.eqb_eq; exact T6).
      rewrite <- app_assoc. rewrite <- L at 1. rewrite splitN_app. reflexivity.
    + destruct (N.eqb_spec t ATYPD) as [TD|TD]; [|discriminate].
      destruct r1 as [|l r2]; [discriminate|].
      destruct (splitN r2 l) as [[name r3]|] eqn:E; [|discriminate].
      destruct (splitN_len _ _ _ _ E) as [L ->].
      destruct (read_port_inv _ _ _ _ _ _ _ H) as (hi & lo & -> & -> & ->).
      split; [cbn [app]; rewrite <- app_assoc; reflexivity|].
      split; [cbn [app lenN]; rewrite lenN_app; cbn [lenN]; lia|].
      intros rest'. cbn [app read_addr]. replace (t =? ATYP4) with false by (symmetry; apply N.eqb_neq; exact T4).
      replace (t =? ATYP6) with false by (symmetry; apply N.eqb_neq; exact T6).
      replace (t =? ATYPD) with true by (symmetry; apply N.eqb_eq; exact TD).
      rewrite <- app_assoc. rewrite <- L at 1. rewrite splitN_app. reflexivity.
Qed.

Lemma parse_stable : forall pkt a h p, parse pkt = POk a h p ->
  pkt = h ++ p /\ forall p', parse (h ++ p') = POk a h p'.
Proof.
  intros pkt a h p H. unfold parse in H.
  destruct (lenN pkt <=? SHORT); [discriminate|].
  destruct pkt as [|b0 [|b1 [|b2 r]]]; try discriminate.
  destruct (N.eqb_spec b0 0) as [->|]; [|discriminate].
  destruct (N.eqb_spec b1 0) as [->|]; [|discriminate].
  destruct (N.eqb_spec b2 0) as [->|]; [|discriminate].
  cbn [andb negb] in H.
  destruct (read_addr r) as [e|[[a' c] rest]] eqn:E; [discriminate|]. inversion H. subst. clear H.
  destruct (read_addr_stable _ _ _ _ E) as (-> & Hl & Hs).
  split; [reflexivity|]. intros p'. unfold parse.
  destruct socks5udp_consts_ok as (_ & _ & _ & HS & _). rewrite HS.
  replace (lenN ((0 :: 0 :: 0 :: c) ++ p') <=? 6) with false
    by (symmetry; apply N.leb_gt; cbn [app lenN]; rewrite lenN_app; lia).
  cbn [app N.eqb andb negb]. rewrite Hs. reflexivity.
Qed.

Lemma udp_header_rejects :
  (forall pkt, lenN pkt <= SHORT -> parse pkt = PErr PNoData) /\
  (forall b0 b1 b2 r, SHORT < lenN (b0 :: b1 :: b2 :: r) -> (b0 <> 0 \/ b1 <> 0) -> parse (b0 :: b1 :: b2 :: r) = PErr PInvalid) /\
  (forall b2 r, SHORT < lenN (0 :: 0 :: b2 :: r) -> b2 <> 0 -> parse (0 :: 0 :: b2 :: r) = PErr PUnsupported) /\
  (forall t r, SHORT < lenN (0 :: 0 :: 0 :: t :: r) -> t <> ATYP4 -> t <> ATYP6 -> t <> ATYPD ->
     parse (0 :: 0 :: 0 :: t :: r) = PErr PAddrType) /\
  (forall pkt a h p, parse pkt = POk a h p -> pkt = h ++ p /\ forall p', parse (h ++ p') = POk a h p').
Proof. exact (conj parse_short (conj parse_reserved (conj parse_fragment (conj parse_bad_atyp parse_stable)))). Qed.

(* ---------- the relay ---------- *)
(* each datagram of the client goes, unchanged, to the destination named in its header *)
Lemma relay_dest_is_header : forall m pkt dns a h p,
  parse pkt = POk a h p ->
  pkt = h ++ p /\
  (forall v, to16 (ip a) = Some v ->
     relay_step m (Up pkt dns) = (memo_set m (key (mkUdp (ip a) (port a))) h, OSend (mkUdp (ip a) (port a)) p)) /\
  (forall i, to16 (ip a) = None -> fqdn a <> [] -> dns = Some i ->
     relay_step m (Up pkt dns) = (memo_set m (key (mkUdp i (port a))) h, OSend (mkUdp i (port a)) p)) /\
  (to16 (ip a) = None -> (fqdn a = [] \/ dns = None) -> relay_step m (Up pkt dns) = (m, ODrop)).
Proof.
  intros m pkt dns a h p H. split; [apply (parse_stable _ _ _ _ H)|].
  unfold relay_step. rewrite H. unfold resolve. repeat split.
  - intros v Hv. rewrite Hv. reflexivity.
  - intros i Hn Hf Hd. rewrite Hn. destruct (fqdn a); [congruence|]. rewrite Hd. reflexivity.
  - intros Hn [Hf|Hd]; rewrite Hn.
    + rewrite Hf. reflexivity.
    + destruct (fqdn a); [reflexivity|]. rewrite Hd. reflexivity.
Qed.

Lemma relay_bad_header_stops : forall m pkt dns e, parse pkt = PErr e ->
  relay_step m (Up pkt dns) = (m, OStopParse e).
Proof. intros m pkt dns e H. unfold relay_step. rewrite H. reflexivity. Qed.

Definition relay_memo (hist : list rin) : memo := fold_left (fun m i => fst (relay_step m i)) hist [].

(* the address [a] of a reply header designates the sender [s]:
   either it is literally the sender's IP and port (4-in-6 form aside), or it is the header the client itself
   used in an earlier datagram whose destination resolved to the sender's address *)
Definition designates (hist : list rin) (a : addrspec) (h : list N) (k : list N * N) : Prop :=
  (exists s, key s = k /\ fqdn a = [] /\ port a = uport s /\ norm_ip (ip a) = norm_ip (uip s) /\
             udp_addr_to_header s = Some h) \/
  (exists pkt dns pl dst, In (Up pkt dns) hist /\ parse pkt = POk a h pl /\ resolve a dns = Some dst /\ key dst = k).

Definition good (hist : list rin) (k : list N * N) (h : list N) : Prop :=
  exists a, (forall p, parse (h ++ p) = POk a h p) /\ designates hist a h k.

Definition wf_in (i : rin) : Prop := match i with Down s _ => uport s < 65536 | Up _ _ => True end.

Lemma designates_mono : forall hist i a h k, designates hist a h k -> designates (hist ++ [i]) a h k.
Proof.
  intros hist i a h k [H|(pkt & dns & pl & dst & Hin & H)]; [left; exact H|].
  right. exists pkt, dns, pl, dst. split; [apply in_or_app; left; exact Hin|exact H].
Qed.

Lemma fresh_header_good : forall hist s h, uport s < 65536 -> udp_addr_to_header s = Some h ->
  good hist (key s) h.
Proof.
  intros hist s h Hp Hh. unfold udp_addr_to_header in Hh.
  assert (Hf : to16 (ip (mkAddr [] (uip s) (uport s))) = None -> lenN (fqdn (mkAddr [] (uip s) (uport s))) <= 255)
    by (intros _; cbn [fqdn lenN]; lia).
  destruct (udp_header_roundtrip (mkAddr [] (uip s) (uport s)) [] h Hp Hf Hh) as (hdr & Hb & He & Hparse).
  rewrite app_nil_r in He. subst hdr.
  destruct (parse_stable _ _ _ _ Hparse) as [_ Hst].
  exists (canon (mkAddr [] (uip s) (uport s))). split; [exact Hst|].
  left. exists s. split; [reflexivity|]. unfold canon. cbn [ip fqdn port].
  destruct (to4 (uip s)) as [v4|] eqn:E4.
  - cbn [fqdn port ip]. repeat split; try reflexivity; [|exact Hh].
    unfold norm_ip. rewrite E4. rewrite (to4_of_len4 _ (to4_len _ _ E4)). reflexivity.
  - destruct (to16 (uip s)) as [v6|] eqn:E6.
    + cbn [fqdn port ip]. rewrite (to4_none_to16 _ _ E4 E6). repeat split; try reflexivity. exact Hh.
    + unfold build_dgram, build_addr in Hh. cbn [ip fqdn] in Hh. rewrite E4, E6 in Hh. discriminate.
Qed.

Lemma memo_get_good : forall hist m k h, Forall (fun e => good hist (fst e) (snd e)) m ->
  memo_get m k = Some h -> good hist k h.
Proof.
  intros hist m k h H. induction H as [|[k' h'] t Hx Ht IH]; cbn [memo_get]; [discriminate|].
  destruct (key_eqb k' k) eqn:E.
  - intros Hs. inversion Hs. subst. apply key_eqb_eq in E. subst. exact Hx.
  - exact IH.
Qed.

Lemma relay_memo_good : forall hist, Forall wf_in hist ->
  Forall (fun e => good hist (fst e) (snd e)) (relay_memo hist).
Proof.
  intros hist. induction hist as [|i hist IH] using rev_ind; intros Hwf.
  - constructor.
  - apply Forall_app in Hwf. destruct Hwf as [Hwf Hi]. inversion Hi as [|? ? Hwi _]. subst.
    specialize (IH Hwf). unfold relay_memo. rewrite fold_left_app. cbn [fold_left]. fold (relay_memo hist).
    assert (Hold : Forall (fun e => good (hist ++ [i]) (fst e) (snd e)) (relay_memo hist)).
    { eapply Forall_impl; [|exact IH]. intros [k h] (a & Hs & Hd). exists a. split; [exact Hs|].
      apply designates_mono. exact Hd. }
    destruct i as [pkt dns|s payload]; unfold relay_step.
    + destruct (parse pkt) as [a h p|e] eqn:Ep; [|exact Hold].
      destruct (resolve a dns) as [dst|] eqn:Er; [|exact Hold].
      cbn [fst]. unfold memo_set. constructor; [|exact Hold]. cbn [fst snd].
      exists a. split; [apply (parse_stable _ _ _ _ Ep)|].
      right. exists pkt, dns, p, dst. split; [apply in_or_app; right; left; reflexivity|]. repeat split; assumption.
    + destruct (memo_get (relay_memo hist) (key s)) as [h|] eqn:Eg; [exact Hold|].
      destruct (udp_addr_to_header s) as [h|] eqn:Eh; [|exact Hold].
      cbn [fst]. unfold memo_set. constructor; [|exact Hold]. cbn [fst snd].
      apply fresh_header_good; [exact Hwi|exact Eh].
Qed.

(* every reply handed to the client = header ++ the payload exactly as received, and the header designates the sender *)
Lemma reply_header_is_sender : forall hist s payload m' pkt,
  Forall wf_in hist -> uport s < 65536 ->
  relay_step (relay_memo hist) (Down s payload) = (m', OClient pkt) ->
  exists a h, pkt = h ++ payload /\ parse pkt = POk a h payload /\ designates hist a h (key s) /\
              write pkt = Some (frame pkt).
Proof.
  intros hist s payload m' pkt Hwf Hp H. unfold relay_step in H.
  assert (Hgood : forall h, (memo_get (relay_memo hist) (key s) = Some h \/
                             (memo_get (relay_memo hist) (key s) = None /\ udp_addr_to_header s = Some h)) ->
                  good hist (key s) h).
  { intros h [Hm|[_ Hu]].
    - eapply memo_get_good; [apply relay_memo_good; exact Hwf|exact Hm].
    - apply fresh_header_good; assumption. }
  assert (Hfin : forall h, good hist (key s) h ->
            match write (h ++ payload) with Some _ => OClient (h ++ payload) | None => OStopWrite end = OClient pkt ->
            exists a h0, pkt = h0 ++ payload /\ parse pkt = POk a h0 payload /\ designates hist a h0 (key s) /\
                         write pkt = Some (frame pkt)).
  { intros h (a & Hs & Hd) Hw. unfold write in *. destruct (MAXLEN <? lenN (h ++ payload)) eqn:El; [discriminate|].
    inversion Hw. subst pkt. exists a, h. rewrite El. repeat split; [apply Hs|exact Hd]. }
  destruct (memo_get (relay_memo hist) (key s)) as [h|] eqn:Eg.
  - inversion H as [[Hm Ho]]. apply (Hfin h); [apply Hgood; left; reflexivity|exact Ho].
  - destruct (udp_addr_to_header s) as [h|] eqn:Eh; [|inversion H].
    inversion H as [[Hm Ho]]. apply (Hfin h); [apply Hgood; right; split; reflexivity|exact Ho].
Qed.

(* ---------- the API wrapper (fixed code) ---------- *)
Lemma firstN_all : forall l n, lenN l <= n -> firstN n l = l.
Proof.
  induction l as [|x t IH]; intros n H.
  - destruct n; reflexivity.
  - cbn [lenN] in H. cbn [firstN]. replace (n =? 0) with false by (symmetry; apply N.eqb_neq; lia).
    rewrite IH by lia. reflexivity.
Qed.

Lemma firstN_len : forall l n, lenN (firstN n l) = N.min n (lenN l).
Proof.
  induction l as [|x t IH]; intros n.
  - destruct n; cbn [firstN lenN N.eqb]; lia.
  - cbn [firstN]. destruct (N.eqb_spec n 0) as [->|Hn]; cbn [lenN]; [lia|]. rewrite IH. lia.
Qed.

(* a datagram written by one wrapper and read by another: same payload (also the EMPTY one), same address *)
Lemma wrapper_roundtrip : forall cap p to b,
  uport to < 65536 -> lenN p <= cap ->
  wrapper_write p to = Some b ->
  wrapper_read cap b = WOk p (mkUdp (norm_ip (uip to)) (uport to)).
Proof.
  intros cap p to b Hp Hc Hw. unfold wrapper_write, build_dgram in Hw.
  destruct (build_addr (mkAddr [] (uip to) (uport to))) as [h|] eqn:E; [|discriminate].
  inversion Hw. subst b. clear Hw.
  assert (Hf : to16 (ip (mkAddr [] (uip to) (uport to))) = None -> lenN (fqdn (mkAddr [] (uip to) (uport to))) <= 255)
    by (intros _; cbn [fqdn lenN]; lia).
  destruct (read_addr_built (mkAddr [] (uip to) (uport to)) h p Hp Hf E) as [Hr Hl].
  unfold wrapper_read. destruct socks5udp_consts_ok as (_ & _ & _ & _ & Hs & _). rewrite Hs.
  replace (lenN (0 :: 0 :: 0 :: h ++ p) <=? 6) with false
    by (symmetry; apply N.leb_gt; cbn [lenN]; rewrite lenN_app; lia).
  cbn [negb andb N.eqb]. rewrite Hr. unfold canon, norm_ip. cbn [ip fqdn port].
  destruct (to4 (uip to)) as [v4|] eqn:E4.
  - cbn [fqdn ip port]. rewrite firstN_all by exact Hc. reflexivity.
  - destruct (to16 (uip to)) as [v6|] eqn:E6.
    + cbn [fqdn ip port]. rewrite firstN_all by exact Hc. rewrite (to4_none_to16 _ _ E4 E6). reflexivity.
    + unfold build_addr in E. cbn [ip fqdn] in E. rewrite E4, E6 in E. discriminate.
Qed.

(* the wrapper never hands out more than the caller's buffer and never invents bytes *)
Lemma wrapper_read_sound : forall cap b p from, wrapper_read cap b = WOk p from ->
  exists a h pl, parse b = POk a h pl /\ fqdn a = [] /\ p = firstN cap pl /\ from = mkUdp (ip a) (port a).
Proof.
  intros cap b p from H. unfold wrapper_read in H. unfold parse.
  destruct socks5udp_consts_ok as (_ & _ & _ & Hs & Hw & _). rewrite Hs. rewrite Hw in H.
  destruct (lenN b <=? 6); [discriminate|].
  destruct b as [|b0 [|b1 [|b2 r]]]; try discriminate.
  destruct (negb ((b0 =? 0) && (b1 =? 0))); [discriminate|].
  destruct (negb (b2 =? 0)); [discriminate|].
  destruct (read_addr r) as [e|[[a c] pl]]; [discriminate|].
  destruct (fqdn a) eqn:Ef; [|discriminate]. inversion H. subst.
  exists a, (b0 :: b1 :: b2 :: c), pl. repeat split. exact Ef.
Qed.

(* ---------- non-vacuity ---------- *)
Example ex_headers :
  (* IPv4 1.2.3.4:53, payload with marker-like bytes *)
  build_dgram (mkAddr [] [1;2;3;4] 53) [0;255] = Some [0;0;0; 1; 1;2;3;4; 0;53; 0;255] /\
  parse [0;0;0; 1; 1;2;3;4; 0;53; 0;255] = POk (mkAddr [] [1;2;3;4] 53) [0;0;0;1;1;2;3;4;0;53] [0;255] /\
  (* domain "ab":65535, empty payload *)
  parse [0;0;0; 3; 2;97;98; 255;255] = POk (mkAddr [97;98] [] 65535) [0;0;0;3;2;97;98;255;255] [] /\
  (* v4-mapped IPv6 is written as IPv4 *)
  build_dgram (mkAddr [] [0;0;0;0;0;0;0;0;0;0;255;255;9;8;7;6] 1) [] = Some [0;0;0;1;9;8;7;6;0;1] /\
  (* fragment flag, bad type, short *)
  parse [0;0;1; 1; 1;2;3;4; 0;53] = PErr PUnsupported /\
  parse [0;0;0; 2; 1;2;3;4; 0;53] = PErr PAddrType /\
  parse [0;0;0; 1; 1;2;3;4; 0] = PErr PNoData /\
  parse [0;0;0; 1; 1;2] = PErr PNoData.
Proof. vm_compute. repeat split; reflexivity. Qed.

(* a name of 256 bytes is written with length byte 0 (byte(len) wraps): it does not round-trip, hence the
   hypothesis lenN (fqdn a) <= 255 of udp_header_roundtrip (AddrSpec.From refuses such names) *)
Example ex_long_name_wraps :
  match build_dgram (mkAddr (repeat 97 256) [] 80) [] with
  | Some pkt => exists a h p, parse pkt = POk a h p /\ fqdn a = []
  | None => False
  end.
Proof. vm_compute. eexists _, _, _. split; reflexivity. Qed.

Example ex_relay :
  let s1 := mkUdp [10;0;0;1] 7 in
  let s2 := mkUdp [0;0;0;0;0;0;0;0;0;0;255;255;10;0;0;2] 9 in
  let hist := [Up [0;0;0; 3; 1;120; 0;7; 42] (Some [10;0;0;1]);       (* to "x":7, resolves to 10.0.0.1 *)
               Up [0;0;0; 1; 10;0;0;2; 0;9; 43; 44] None] in            (* to 10.0.0.2:9 *)
  fst (relay_run [] (hist ++ [Down s1 [1]; Down s2 []; Down (mkUdp [10;0;0;3] 5) [0;255]])) =
  [OSend s1 [42]; OSend (mkUdp [10;0;0;2] 9) [43;44];
   OClient [0;0;0;3;1;120;0;7; 1];                 (* reply from 10.0.0.1:7 carries the name the client used *)
   OClient [0;0;0;1;10;0;0;2;0;9];                 (* reply from ::ffff:10.0.0.2 carries 10.0.0.2:9, empty payload kept *)
   OClient [0;0;0;1;10;0;0;3;0;5; 0;255]].         (* unsolicited sender: its own address *)
Proof. vm_compute. reflexivity. Qed.

Example ex_wrapper_empty_payload :
  wrapper_write [] (mkUdp [127;0;0;1] 9999) = Some [0;0;0;1;127;0;0;1;39;15] /\
  wrapper_read 1500 [0;0;0;1;127;0;0;1;39;15] = WOk [] (mkUdp [127;0;0;1] 9999).
Proof. vm_compute. split; reflexivity. Qed.
