(* C17 — the low-entropy codec is lossless, canonical, and the portable bit deposit / extract agree with
   the Intel definition.  Statements only; each is closed by [exact] of a lemma of proofs/Bits64Proofs.v or
   proofs/LowEntropyProofs.v.  Model: base/Bits64.v, model/LowEntropy.v (constants from gen/Consts.v).
   Non-vacuity examples: ex_roundtrip_hyps, ex_rejections at the end of proofs/LowEntropyProofs.v.
   Conventions: bytes are N (< 256: [bytes_ok]); the half mask is a uint32 ([hm < 2^32]); [nchunks n c] is the
   chunk count as the Go code computes it, proved equal to ceil(n/c) in C17_roundtrip. *)
From Coq Require Import NArith ZArith List.
From M Require Import gen.Consts base.Bits64 model.LowEntropy proofs.Bits64Proofs proofs.Bits64LoopProofs proofs.Bits64IntelProofs proofs.LowEntropyProofs proofs.LowEntropyWireProofs.
From M Require Import base.MiniGo gen.Translated proofs.TranslatedMathextProofs proofs.TranslatedLowEntropyProofs.
From M Require model.Wire.
Import ListNotations.
Open Scope N_scope.

(* PEXT inverts PDEP on the low popcount(mask) source bits; PDEP inverts PEXT on the masked bits.  All x, all masks. *)
Theorem C17_pext_pdep : forall x m, pext (pdep x m) m = x mod 2 ^ popcount m.
Proof. exact pext_pdep. Qed.
Print Assumptions C17_pext_pdep.

Theorem C17_pdep_pext : forall x m, pdep (pext x m) m = N.land x m.
Proof. exact pdep_pext. Qed.
Print Assumptions C17_pdep_pext.

(* the portable Go loops pdepGeneric / pextGeneric (lowest-set-bit isolation mask & -mask, mask &= mask-1, moving
   source / result bit with uint64 wrap) compute PDEP / PEXT for every x and every 64-bit mask *)
Theorem C17_pdep_go_eq_spec : forall x mask, mask < W64 -> pdep_go x mask = pdep x mask.
Proof. exact pdep_go_eq_spec. Qed.
Print Assumptions C17_pdep_go_eq_spec.

Theorem C17_pext_go_eq_spec : forall x mask, mask < W64 -> pext_go x mask = pext x mask.
Proof. exact pext_go_eq_spec. Qed.
Print Assumptions C17_pext_go_eq_spec.

(* the SOURCE of pdepGeneric / pextGeneric / RepeatUint32 as it is now (gen/Translated.v: translated from pkg/mathext/bit.go
   by harness/cmd/go2coq on every run, semantics of base/MiniGo.v; uint64 values are Z in [0, 2^64)) computes the
   Intel PDEP / PEXT for every x and every 64-bit mask, within 65 units of loop fuel, and the doubled half mask *)
Theorem C17_source_pdep_eq_spec : forall x mask : N, mask < W64 ->
  xl_mathext_pdepGeneric (Z.of_N x) (Z.of_N mask) = Some (Z.of_N (pdep x mask)).
Proof. exact xl_pdepGeneric_eq_spec. Qed.
Print Assumptions C17_source_pdep_eq_spec.

Theorem C17_source_pext_eq_spec : forall x mask : N, mask < W64 ->
  xl_mathext_pextGeneric (Z.of_N x) (Z.of_N mask) = Some (Z.of_N (pext x mask)).
Proof. exact xl_pextGeneric_eq_spec. Qed.
Print Assumptions C17_source_pext_eq_spec.

Theorem C17_source_repeat32 : forall v : N, v < 2 ^ 32 ->
  xl_mathext_RepeatUint32 (Z.of_N v) = Z.of_N (repeat32 v).
Proof. exact xl_RepeatUint32_eq_model. Qed.
Print Assumptions C17_source_repeat32.

(* likewise the integer helpers of pkg/protocol/low_entropy.go: isValidLowEntropyRotation (an int32 enum), lowBits (the
   source panics for n < 0 - a shift by a negative count - and the translation returns None there), rotateLowEntropyMask
   (math/bits.RotateLeft64 by its specification; chunk indexes are >= 0 at every call), isLowEntropyProtocol *)
Theorem C17_source_valid_rotation : forall r, (- 2 ^ 31 <= r < 2 ^ 31)%Z ->
  xl_protocol_isValidLowEntropyRotation r = valid_rotation r.
Proof. exact xl_isValidLowEntropyRotation_eq_model. Qed.
Print Assumptions C17_source_valid_rotation.

Theorem C17_source_lowbits : forall n, (0 <= n)%Z -> xl_protocol_lowBits n = Some (Z.of_N (lowbits (Z.to_N n))).
Proof. exact xl_lowBits_eq_model. Qed.
Print Assumptions C17_source_lowbits.

Theorem C17_source_rotate_mask : forall (init : N) (rot ci : Z),
  init < W64 -> (- 2 ^ 31 <= rot < 2 ^ 31)%Z -> (0 <= ci < 2 ^ 63)%Z ->
  xl_protocol_rotateLowEntropyMask (Z.of_N init) rot ci = Z.of_N (rotate_mask init rot (Z.to_N ci)).
Proof. exact xl_rotateLowEntropyMask_eq_model. Qed.
Print Assumptions C17_source_rotate_mask.

Theorem C17_source_is_le_proto : forall p, xl_protocol_isLowEntropyProtocol p = is_le_proto p.
Proof. exact xl_isLowEntropyProtocol_eq_model. Qed.
Print Assumptions C17_source_is_le_proto.

(* the mode table and the encoded length as the source computes them (error results are [true] in the translation's last
   component; lowEntropyEncodedPayloadLen divides by the table's value, so its translation is partial - None = panic -
   and the theorem shows it never is) *)
Theorem C17_source_mode_params : forall mode,
  xl_protocol_buildLowEntropyParams mode =
  match mode_params mode with Some (c, w) => ((c, w), false) | None => ((0, 0), true) end%Z.
Proof. exact xl_buildLowEntropyParams_eq_mode_params. Qed.
Print Assumptions C17_source_mode_params.

Theorem C17_source_enc_len : forall n mode, (- 2 ^ 61 < n < 2 ^ 61)%Z ->
  xl_protocol_lowEntropyEncodedPayloadLen n mode = Some (of_res (enc_len n mode)).
Proof. exact xl_lowEntropyEncodedPayloadLen_eq_enc_len. Qed.
Print Assumptions C17_source_enc_len.

(* the position-by-position rendering of the Intel SDM pseudo code (bit index m, counter k; base/Bits64.v
   pdep_intel / pext_intel) equals the structural definition: for every operand width n on the mask's low n bits,
   hence at width 64 for every x and every mask < 2^64 *)
Theorem C17_pdep_intel_width : forall (n : nat) x mask,
  pdep_intel_loop n 0 0 x mask 0 = pdep x (mask mod 2 ^ N.of_nat n).
Proof. exact pdep_intel_width. Qed.
Print Assumptions C17_pdep_intel_width.

Theorem C17_pext_intel_width : forall (n : nat) x mask,
  pext_intel_loop n 0 0 x mask 0 = pext x (mask mod 2 ^ N.of_nat n).
Proof. exact pext_intel_width. Qed.
Print Assumptions C17_pext_intel_width.

Theorem C17_pdep_intel_eq_spec : forall x mask, mask < W64 -> pdep_intel x mask = pdep x mask.
Proof. exact pdep_intel_eq_spec. Qed.
Print Assumptions C17_pdep_intel_eq_spec.

Theorem C17_pext_intel_eq_spec : forall x mask, mask < W64 -> pext_intel x mask = pext x mask.
Proof. exact pext_intel_eq_spec. Qed.
Print Assumptions C17_pext_intel_eq_spec.

(* the mode table of docs/protocol.md is exactly what buildLowEntropyParams implements *)
Theorem C17_mode_table : forall mode c w,
  mode_params mode = Some (c, w) <-> In (mode, c, w) [(1, 4, 16); (2, 5, 20); (3, 6, 24); (4, 7, 28)]%Z.
Proof. exact mode_params_table. Qed.
Print Assumptions C17_mode_table.

(* exactly the 31 documented rotation codes are valid *)
Theorem C17_valid_rotations : forall r,
  valid_rotation r = true <-> (r = 0 \/ 1 <= r <= 15 \/ exists k, 1 <= k <= 15 /\ r = 16 * k)%Z.
Proof. exact valid_rotation_spec. Qed.
Print Assumptions C17_valid_rotations.

(* round trip and length law: every body of >= 1 byte whose chunk count fits the uint16 length field
   (<= 8191 chunks — the only bound, enforced by the code itself), every valid mode, every half mask of the
   mode's weight, every valid rotation, both padding bits *)
Theorem C17_roundtrip : forall body mode hm rot pb c w,
  bytes_ok body -> hm < 2 ^ 32 -> pb <= 1 ->
  mode_params mode = Some (c, w) -> Z.of_N (popcount hm) = w -> valid_rotation rot = true ->
  (1 <= length body)%nat -> (nchunks (Z.of_nat (length body)) c <= 8191)%Z ->
  exists e, encode body mode hm rot pb = Ok e /\
    Z.of_nat (length e) = (8 * nchunks (Z.of_nat (length body)) c)%Z /\
    nchunks (Z.of_nat (length body)) c = ((Z.of_nat (length body) + c - 1) / c)%Z /\
    bytes_ok e /\
    decode e (Z.of_nat (length body)) mode hm rot = Ok body.
Proof. exact le_roundtrip. Qed.
Print Assumptions C17_roundtrip.

(* canonicity: whatever the decoder accepts is exactly the encoder's output for the decoded body with one of
   the two padding bits (all byte strings, all metadata field values) *)
Theorem C17_canonical : forall e n mode hm rot b,
  bytes_ok e -> hm < 2 ^ 32 ->
  decode e n mode hm rot = Ok b ->
  exists pb, pb <= 1 /\ encode b mode hm rot pb = Ok e /\ Z.of_nat (length b) = n /\ bytes_ok b.
Proof. exact le_canonical. Qed.
Print Assumptions C17_canonical.

Theorem C17_accepts_iff_canonical : forall e n mode hm rot b,
  bytes_ok e -> hm < 2 ^ 32 ->
  (decode e n mode hm rot = Ok b <->
   exists pb, pb <= 1 /\ encode b mode hm rot pb = Ok e /\ Z.of_nat (length b) = n /\ bytes_ok b).
Proof. exact le_accepts_iff_canonical. Qed.
Print Assumptions C17_accepts_iff_canonical.

(* rejections, each with its own error: invalid mode, wrong mask weight, invalid rotation, padding bit > 1,
   empty / oversized body, inconsistent lengths *)
Theorem C17_rejects : forall e body n mode hm rot pb,
  (mode_params mode = None ->
     encode body mode hm rot pb = Err ErrMode /\ decode e n mode hm rot = Err ErrMode) /\
  (forall c w, mode_params mode = Some (c, w) -> Z.of_N (popcount hm) <> w ->
     encode body mode hm rot pb = Err ErrWeight /\ decode e n mode hm rot = Err ErrWeight) /\
  (forall c w, mode_params mode = Some (c, w) -> Z.of_N (popcount hm) = w -> valid_rotation rot = false ->
     encode body mode hm rot pb = Err ErrRotation /\ decode e n mode hm rot = Err ErrRotation) /\
  (forall c w, mode_params mode = Some (c, w) -> Z.of_N (popcount hm) = w -> valid_rotation rot = true ->
     (1 < pb -> encode body mode hm rot pb = Err ErrPadBit) /\
     (pb <= 1 -> body = [] -> encode body mode hm rot pb = Err ErrLen) /\
     (pb <= 1 -> (nchunks (Z.of_nat (length body)) c > 8191)%Z -> encode body mode hm rot pb = Err ErrTooBig) /\
     ((n <= 0)%Z -> decode e n mode hm rot = Err ErrLen) /\
     ((1 <= n)%Z -> (nchunks n c > 8191)%Z -> decode e n mode hm rot = Err ErrTooBig) /\
     ((1 <= n)%Z -> (nchunks n c <= 8191)%Z -> Z.of_nat (length e) <> (8 * nchunks n c)%Z ->
        decode e n mode hm rot = Err ErrEncLen)).
Proof. exact le_rejects. Qed.
Print Assumptions C17_rejects.

(* mixed padding: a chunk whose non-data positions are neither all 0 nor all 1 is refused whatever came before *)
Theorem C17_mixed_padding_refused : forall M L pbo g,
  let PM := not64 (pdep (lowbits (8 * N.of_nat L)) M) in
  N.land (be_val g) PM <> 0 -> N.land (be_val g) PM <> PM ->
  exists e, dec_chunk M L pbo g = Err e.
Proof. exact dec_chunk_mixed. Qed.
Print Assumptions C17_mixed_padding_refused.

(* validateLowEntropyDataAckMetadata accepts exactly the consistent field combinations *)
Theorem C17_meta_ties_lengths : forall proto mode hm epl pl rot,
  validate_meta proto mode hm epl pl rot = Ok tt <->
  is_le_proto proto = true /\ (epl <= C17_maxPDU)%Z /\
  exists c w, mode_params mode = Some (c, w) /\ Z.of_N (popcount hm) = w /\ valid_rotation rot = true /\
    ((epl = 0 /\ pl = 0)%Z \/
     (1 <= epl /\ nchunks epl c <= 8191 /\ pl = 8 * nchunks epl c)%Z).
Proof. exact meta_ties_lengths. Qed.
Print Assumptions C17_meta_ties_lengths.

(* cross-model (C09): Wire.v's validity test of unmarshalled low-entropy data metadata (types 10 / 11) accepts exactly
   the field combinations validate_meta accepts - the two transcriptions of validateLowEntropyDataAckMetadata agree *)
Theorem C17_meta_agrees_with_wire : forall p mode mask elen plen rot : N,
  (Wire.is_low_entropy p && Wire.le_meta_ok mode mask elen plen rot)%bool = true <->
  validate_meta (Z.of_N p) (Z.of_N mode) mask (Z.of_N elen) (Z.of_N plen) (Z.of_N rot) = Ok tt.
Proof. exact meta_agrees_with_wire. Qed.
Print Assumptions C17_meta_agrees_with_wire.

(* the documented vector *)
Theorem C17_doc_vector :
  encode doc_body 1 doc_hm 0 0 = Ok [1;2;3;4;5;6;7;8] /\
  encode doc_body 1 doc_hm 0 1 = Ok [241;242;243;244;245;246;247;248].
Proof. exact doc_vector. Qed.
Print Assumptions C17_doc_vector.

(* the SOURCE of validateLowEntropyCodecParams as it is now (gen/Translated.v; math/bits.OnesCount32 by specification):
   it accepts exactly the triples validate_params accepts - a mode of the table, a half mask with exactly the mode's number
   of one bits, a valid rotation - and returns the mode's parameters; C17_rejects / C17_accepts_iff_canonical are stated
   over validate_params *)
Theorem C17_source_codec_params : forall (mode : Z) (hm : N) (rot : Z), (- 2 ^ 31 <= rot < 2 ^ 31)%Z ->
  xl_protocol_validateLowEntropyCodecParams mode (Z.of_N hm) rot =
  match validate_params mode hm rot with Ok (c, w) => ((c, w), false) | Err _ => ((0, 0), true) end%Z.
Proof. exact xl_validateLowEntropyCodecParams_eq_model. Qed.
Print Assumptions C17_source_codec_params.

Theorem C17_source_chunk_mask : forall (init : N) (rot ci : Z),
  init < W64 -> (- 2 ^ 31 <= rot < 2 ^ 31)%Z -> (- 2 ^ 63 <= ci < 2 ^ 63)%Z ->
  xl_protocol_lowEntropyChunkMask (Z.of_N init) rot ci =
  match chunk_mask init rot ci with Ok v => (Z.of_N v, false) | Err _ => (0%Z, true) end.
Proof. exact xl_lowEntropyChunkMask_eq_model. Qed.
Print Assumptions C17_source_chunk_mask.
