(* C11 — with SOCKS5 credentials configured, nothing is proxied without them.
   Statements only; each is closed by [exact] of a lemma of proofs/Socks5AuthProofs.v.
   [handle_auth false] / [serve false] model pkg/socks5/auth.go and socks5.go with
   fixes/C11-noauth-preferred-over-credentials.diff applied; [true] is the pinned tree's rule. *)
From Coq Require Import NArith List.
From M Require Import gen.Consts model.Socks5Auth proofs.Socks5AuthProofs.
Import ListNotations.
Open Scope N_scope.

(* every byte stream, every non-empty credential list: handleAuthentication returns nil only if the
   stream is a greeting offering method 2 followed by a version-1 sub-negotiation whose (user, password)
   is a configured pair; the replies are then 05 02, 01 00 and the unread rest starts right after it *)
Theorem C11_auth_required : forall creds i,
  creds <> [] ->
  out (handle_auth false creds i) = Authenticated ->
  exists u p,
    In (u, p) creds /\ presents i u p (rest (handle_auth false creds i)) /\
    replies (handle_auth false creds i) = [[VER; M_USERPASS]; [SUBVER; ST_OK]].
Proof. exact auth_required. Qed.
Print Assumptions C11_auth_required.

(* both placements in which the listener authenticates (UseProxy = ClientSideAuthentication):
   the proxy is dialled / the request stage runs only after a configured pair was presented,
   and it then sees exactly the bytes after the sub-negotiation *)
Theorem C11_request_only_after_auth : forall use_proxy csa creds i,
  local_auth use_proxy csa = true -> creds <> [] ->
  let s := serve false use_proxy csa creds i in
  (s_dialed s = true -> use_proxy = true /\ s_next s <> None) /\
  (s_next s <> None ->
     exists u p r, In (u, p) creds /\ presents i u p r /\ s_next s = Some r /\
                   s_replies s = [[VER; M_USERPASS]; [SUBVER; ST_OK]] /\ s_dialed s = use_proxy).
Proof. exact serve_request_only_after_auth. Qed.
Print Assumptions C11_request_only_after_auth.

(* what must not change: a configured pair, properly presented, is accepted *)
Theorem C11_valid_pair_accepted : forall (creds : list cred) i u p r,
  In (u, p) creds -> presents i u p r ->
  handle_auth false creds i =
  {| replies := [[VER; M_USERPASS]; [SUBVER; ST_OK]]; out := Authenticated; rest := r |}.
Proof. exact valid_pair_accepted. Qed.
Print Assumptions C11_valid_pair_accepted.

(* no credentials configured: exactly the greetings offering "no authentication" pass (reply 05 00) ... *)
Theorem C11_noauth_mode_accepts : forall legacy i,
  (forall methods r, greets i methods r -> In M_NOAUTH methods ->
     handle_auth legacy [] i = {| replies := [[VER; M_NOAUTH]]; out := Authenticated; rest := r |}) /\
  (out (handle_auth legacy [] i) = Authenticated ->
     exists methods, greets i methods (rest (handle_auth legacy [] i)) /\ In M_NOAUTH methods /\
                     replies (handle_auth legacy [] i) = [[VER; M_NOAUTH]]).
Proof. exact noauth_mode_accepts. Qed.
Print Assumptions C11_noauth_mode_accepts.

(* ... and username/password is refused: never selected (05 02 is never written), and a greeting
   without method 0 is rejected (without any reply when it offers method 2) *)
Theorem C11_noauth_mode_refuses_userpass : forall legacy i,
  ~ In [VER; M_USERPASS] (replies (handle_auth legacy [] i)) /\
  (forall methods r, greets i methods r -> ~ In M_NOAUTH methods ->
     out (handle_auth legacy [] i) = Rejected /\
     (In M_USERPASS methods -> replies (handle_auth legacy [] i) = [])).
Proof. exact noauth_mode_refuses_userpass. Qed.
Print Assumptions C11_noauth_mode_refuses_userpass.

(* every reply is one of the documented two-byte messages, in the documented order *)
Theorem C11_reply_well_formed : forall legacy creds i,
  In (replies (handle_auth legacy creds i)) documented_replies /\
  Forall (fun w => length w = 2%nat) (replies (handle_auth legacy creds i)).
Proof. exact replies_documented. Qed.
Print Assumptions C11_reply_well_formed.

(* the numbers are those of RFC 1928 section 3 / RFC 1929 section 2 *)
Theorem C11_constants_rfc :
  VER = 5 /\ M_NOAUTH = 0 /\ M_USERPASS = 2 /\ M_NONE = 255 /\ SUBVER = 1 /\ ST_OK = 0 /\ ST_FAIL <> 0.
Proof. exact consts_rfc. Qed.
Print Assumptions C11_constants_rfc.

(* the pinned tree's selection rule refutes the property: with credentials configured, the greeting
   05 02 00 02 (which presents nothing) followed by any request is answered 05 00, the proxy is dialled
   and the request stage runs *)
Theorem C11_legacy_refuted :
  exists creds i,
    creds <> [] /\
    (forall u p r, ~ presents i u p r) /\
    forall req,
      handle_auth true creds (i ++ req) = {| replies := [[VER; M_NOAUTH]]; out := Authenticated; rest := req |} /\
      serve true true true creds (i ++ req) = {| s_replies := [[VER; M_NOAUTH]]; s_dialed := true; s_next := Some req |}.
Proof. exact legacy_refuted. Qed.
Print Assumptions C11_legacy_refuted.

(* the fix changes behaviour only where credentials are configured and both methods are offered *)
Theorem C11_fix_is_minimal : forall creds i,
  handle_auth true creds i <> handle_auth false creds i ->
  creds <> [] /\ exists methods r, greets i methods r /\ In M_NOAUTH methods /\ In M_USERPASS methods.
Proof. exact fix_is_minimal. Qed.
Print Assumptions C11_fix_is_minimal.

(* placements in which this listener does not authenticate (UseProxy <> ClientSideAuthentication):
   the credential list is not consulted; the stream goes to the next stage untouched *)
Theorem C11_delegated_placements : forall legacy use_proxy csa creds i,
  local_auth use_proxy csa = false ->
  serve legacy use_proxy csa creds i = {| s_replies := []; s_dialed := use_proxy; s_next := Some i |}.
Proof. exact serve_delegated. Qed.
Print Assumptions C11_delegated_placements.

(* acceptance is membership of the PAIR: whatever is configured, a presented (user, password) is
   accepted iff exactly that pair is in the list (no encoding of the pair into one string is involved) *)
Theorem C11_pair_membership_exact : forall (creds : list cred) i u p r,
  creds <> [] -> presents i u p r ->
  (out (handle_auth false creds i) = Authenticated <-> In (u, p) creds).
Proof. exact pair_membership_exact. Qed.
Print Assumptions C11_pair_membership_exact.

(* in particular the user/password boundary matters: of two pairs with the same u ++ sep ++ p
   (any separator, also none) only the configured one is accepted; the other gets 01 01, nothing is dialled,
   the request is not read *)
Theorem C11_pair_boundary_matters : forall (creds : list cred) sep u p u' p' i i' r,
  In (u, p) creds -> ~ In (u', p') creds ->
  u ++ sep ++ p = u' ++ sep ++ p' ->
  presents i u p r -> presents i' u' p' r ->
  out (handle_auth false creds i) = Authenticated /\
  handle_auth false creds i' =
    {| replies := [[VER; M_USERPASS]; [SUBVER; ST_FAIL]]; out := Rejected; rest := r |} /\
  s_next (serve false true true creds i') = None /\ s_dialed (serve false true true creds i') = false.
Proof. exact pair_boundary_matters. Qed.
Print Assumptions C11_pair_boundary_matters.
