(* C13 — acks never run ahead of receipt; retransmissions never change content; sequence numbers gapless.
   Statements only; each is closed by [exact] of a lemma of proofs/UdpProtoProofs.v (same model as C02). *)
From Coq Require Import List NArith ZArith Bool Arith.
From M Require Import gen.Consts model.UdpProto proofs.UdpProtoProofs.
Import ListNotations.
Open Scope nat_scope.

(* every datagram ever emitted carries unAckSeq <= the number g of in-order segments its emitter had received
   when it emitted it (g is recorded at emission), and g never exceeds what the emitter has now *)
Theorem C13_ack_safe : forall s u g, reach s -> In (u, g) (back s) -> u <= g /\ g <= length (got s).
Proof. exact ack_never_ahead. Qed.
Print Assumptions C13_ack_safe.

(* all transmissions of one sequence number carry the type, fragment marker and payload bound to it at assignment *)
Theorem C13_retx_same : forall s i c1 c2, reach s -> In (i, c1) (fwd s) -> In (i, c2) (fwd s) ->
  c1 = c2 /\ nth_error (assigned s) i = Some c1.
Proof. exact retx_same_content. Qed.
Print Assumptions C13_retx_same.

(* numbers on the wire are exactly [0, sent_hi); a first transmission carries sent_hi; a Write binds number
   length assigned; bindings never change *)
Theorem C13_seq_gapless : forall s, reach s ->
  (forall i c, In (i, c) (fwd s) -> i < sent_hi s) /\
  (forall i, i < sent_hi s -> exists c, In (i, c) (fwd s)) /\
  sent_hi s <= length (assigned s) /\
  (forall l s', lstep s l s' ->
     (forall i c, nth_error (assigned s) i = Some c -> nth_error (assigned s') i = Some c) /\
     (forall i, l = LSendNew i -> i = sent_hi s /\ sent_hi s' = S i) /\
     (forall c, l = LWrite c -> nth_error (assigned s') (length (assigned s)) = Some c /\
                                length (assigned s') = S (length (assigned s)))).
Proof. exact seq_gapless. Qed.
Print Assumptions C13_seq_gapless.

(* a segment leaves sendBuf only after the peer has it: the awaited segment is still held by the sender *)
Theorem C13_no_premature_discard : forall s, reach s ->
  una s <= next_recv s /\
  (next_recv s < length (assigned s) ->
     exists c, nth_error (assigned s) (next_recv s) = Some c /\ una s <= next_recv s < length (assigned s)).
Proof. exact no_premature_discard. Qed.
Print Assumptions C13_no_premature_discard.

Example C13_state_nonvacuous : reach ex_state /\ In (1, 1) (back ex_state) /\ In (0, cA) (fwd ex_state) /\ next_recv ex_state = 2.
Proof. split; [exact ex_state_reach | cbn; auto]. Qed.

(* accept_sound, C13 part.  In an accepted trace: every emitted datagram acknowledges only segment numbers
   all of which had been delivered to its emitter (ReadFrom returned a datagram carrying them) before ... *)
Theorem C13_trace_ack_safe : forall tr a, accept tr = inl a ->
  forall pre X g post, tr = pre ++ ES X g :: post ->
  forall i, (N.of_nat i < g_unack g)%N -> delivered X pre i.
Proof. exact accept_ack_safe. Qed.
Print Assumptions C13_trace_ack_safe.

(* ... all transmissions of a sequence number by an endpoint agree in type, fragment marker and payload ... *)
Theorem C13_trace_retx_same : forall tr a, accept tr = inl a ->
  forall X g1 g2, In g1 (emitted X tr) -> In g2 (emitted X tr) ->
  is_seq X (g_ty g1) = true -> is_seq X (g_ty g2) = true -> g_seq g1 = g_seq g2 ->
  g_ty g1 = g_ty g2 /\ g_frag g1 = g_frag g2 /\ g_pay g1 = g_pay g2.
Proof. exact accept_retx_same. Qed.
Print Assumptions C13_trace_retx_same.

(* ... a number is used only after all smaller numbers ... *)
Theorem C13_trace_gapless : forall tr a, accept tr = inl a ->
  forall pre X g post, tr = pre ++ ES X g :: post -> is_seq X (g_ty g) = true ->
  forall i, (N.of_nat i < g_seq g)%N -> emitted_seq X pre i.
Proof. exact accept_gapless. Qed.
Print Assumptions C13_trace_gapless.

(* ... and every receipt is of a datagram that had been emitted *)
Theorem C13_trace_recv_emitted : forall tr a, accept tr = inl a ->
  forall pre X k post, tr = pre ++ ER X k :: post -> N.to_nat k < length (emitted (negb X) pre).
Proof. exact accept_recv_emitted. Qed.
Print Assumptions C13_trace_recv_emitted.

(* across Close and for control segments: a recorded session  pre ++ post  (post = the datagrams emitted after an
   application or mieru itself started closing: close request / response, queued data, retransmissions) that the
   acceptor accepts never shows one sequence number with two contents - type, fragment marker or payload - on
   either endpoint; a data fragment and a close request sharing a number are rejected *)
Theorem C13_trace_retx_same_across_close_partial : forall pre post l, late_final pre post = Some l ->
  forall X g1 g2, In g1 (emitted X pre ++ l_chk (getL X l)) -> In g2 (emitted X pre ++ l_chk (getL X l)) ->
  is_seq X (g_ty g1) = true -> is_seq X (g_ty g2) = true -> g_seq g1 = g_seq g2 ->
  g_ty g1 = g_ty g2 /\ g_frag g1 = g_frag g2 /\ g_pay g1 = g_pay g2.
Proof. exact accept_closed_retx_same. Qed.
Print Assumptions C13_trace_retx_same_across_close_partial.

(* what is checked after Close (l_chk): every sequenced emission except closeSessionRequests - and of those each
   endpoint's first one is checked too (late_step); the exempted ones are the stateless replies of the underlay for a
   session that is no longer registered, whose sequence field echoes the peer's unAckSeq *)
Theorem C13_trace_after_close_coverage : forall pre post l, late_final pre post = Some l ->
  forall X g, In g (emitted X post) -> is_seq X (g_ty g) = true -> g_ty g <> ty_close_req -> In g (l_chk (getL X l)).
Proof. exact late_covers. Qed.
Print Assumptions C13_trace_after_close_coverage.

(* the FULL sentence "a sequence number never carries two contents" over ALL emitted segments is refuted on the
   faithful model: an accepted session in which the client's number 1 carries a data segment before Close and a
   closeSessionRequest after it - the stateless reply of the underlay for a session it no longer has, whose seq is a copy
   of the peer's unAckSeq (underlay_packet.go, "Session is not registered").  Recorded finding
   stateless-close-reply-reuses-sequence-number; harmless: receivers handle close requests without looking at seq. *)
Theorem C13_seq_reuse_after_close_refuted : exists pre post g1 g2,
  accept_closed pre post = true /\ In g1 (emitted false (pre ++ post)) /\ In g2 (emitted false (pre ++ post)) /\
  is_seq false (g_ty g1) = true /\ is_seq false (g_ty g2) = true /\ g_seq g1 = g_seq g2 /\ g_ty g1 <> g_ty g2.
Proof. exact seq_reuse_after_close. Qed.
Print Assumptions C13_seq_reuse_after_close_refuted.

(* acks stay safe while closing: every datagram emitted after Close acknowledges only numbers all of which had been
   delivered to its emitter before (receipts before and after Close count) *)
Theorem C13_trace_ack_safe_after_close : forall pre post l, late_final pre post = Some l ->
  forall p1 X g p2, post = p1 ++ ES X g :: p2 -> forall i, (N.of_nat i < g_unack g)%N -> delivered X (pre ++ p1) i.
Proof. exact accept_closed_ack_safe. Qed.
Print Assumptions C13_trace_ack_safe_after_close.

(* numbering under partial Writes: writeChunk numbers fragment after fragment and may stop after k of n fragments (write
   deadline passed; the session stays usable).  Whatever Writes happened and wherever each stopped, the numbers queued
   are ns, ns+1, ... without a hole and the counter stands right behind the last one ... *)
Theorem C13_seq_gapless_with_partial_writes : forall ops ns, let '(ns', q) := write_all ns ops in
  ns' = ns + length q /\ map fst q = seq ns (length q).
Proof. exact write_all_gapless. Qed.
Print Assumptions C13_seq_gapless_with_partial_writes.

(* ... a partial Write is k Write steps of the transition system, so C13_seq_gapless covers every state it leads to ... *)
Theorem C13_partial_write_is_a_run : forall cs k s, reach s -> exists s',
  run s (map LWrite (firstn k cs)) s' /\ reach s' /\ assigned s' = assigned s ++ firstn k cs /\
  sent_hi s' = sent_hi s /\ fwd s' = fwd s /\ next_recv s' = next_recv s.
Proof. exact partial_write_run. Qed.
Print Assumptions C13_partial_write_is_a_run.

(* ... and reserving the numbers of all fragments before the loop is refuted: a Write that stops early leaves a hole *)
Theorem C13_reserve_up_front_refuted : exists ops, let '(ns', q) := write_all_reserve 0 ops in
  map fst q <> seq 0 (length q) /\ ns' <> length q.
Proof. exact reserve_up_front_leaves_hole. Qed.
Print Assumptions C13_reserve_up_front_refuted.

(* in the transition system a control segment (the close session request, c_ty c = closeSessionRequest, like any
   LWrite) is numbered in the very step that queues it: its number is the length of the history, no segment
   carries that number yet, and afterwards every transmission of that number carries exactly it *)
Theorem C13_control_numbering : forall s c s', reach s -> lstep s (LWrite c) s' ->
  nth_error (assigned s') (length (assigned s)) = Some c /\
  nth_error (assigned s) (length (assigned s)) = None /\
  (forall i c0, In (i, c0) (fwd s') -> i < length (assigned s)) /\
  (forall s2 c2, reach s2 -> nth_error (assigned s2) (length (assigned s)) = Some c ->
                 In (length (assigned s), c2) (fwd s2) -> c2 = c).
Proof. exact close_request_numbering. Qed.
Print Assumptions C13_control_numbering.

Example C13_closed_nonvacuous :
  accept_closed ex_pre [ES false (mkDg 6 1 0 4096 0 [7]%N); ES false (mkDg 4 2 0 0 0 []); ES true (mkDg 5 1 0 0 0 []); ES true (mkDg 4 2 0 0 0 [])] = true /\
  accept_closed ex_pre [ES false (mkDg 4 1 0 0 0 [])] = false /\
  accept_closed ex_pre [ES false (mkDg 6 2 0 4096 0 [8]%N); ES false (mkDg 4 2 0 0 0 [])] = false /\
  accept_closed ex_pre [ES false (mkDg 4 2 0 0 0 []); ES false (mkDg 4 1 0 0 0 [])] = true.
Proof. exact ex_closed. Qed.

Example C13_trace_nonvacuous : accepts (ex_trace ++ [EF]) = true /\
  accept [ES false (mkDg 8 0 1 0 0 [])] = inr (0%N, rj_ack) /\
  accept [EW false [1;2]%N; ES false (mkDg 2 0 0 0 0 [1;2]%N); ES false (mkDg 2 0 0 0 0 [2]%N)] = inr (2%N, rj_retx) /\
  accept [EW false [1;2]%N; ES false (mkDg 2 0 0 0 0 []); ES false (mkDg 6 2 0 0 0 [1;2]%N)] = inr (2%N, rj_gap).
Proof. split; [exact ex_trace_accepted | destruct ex_rejects as (A & B & C & _); auto]. Qed.
