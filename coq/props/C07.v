(* C07 — sessions are attributed to the authenticating user despite caches and reloads.
   Statements only; each is closed by [exact] of a lemma of proofs/DiscoverProofs.v or
   proofs/SrcCacheProofs.v.  U is the type of registered users of a generation (name and
   credential); hint u = "the segment's user hint names u", auth u = "u's credential opens the
   segment": arbitrary boolean functions (hint collisions and shared credentials allowed). *)
From Coq Require Import List NArith ZArith Bool.
From M Require Import gen.Consts model.Discover model.SrcCache proofs.DiscoverProofs proofs.SrcCacheProofs.
Import ListNotations.
Open Scope N_scope.

(* the attributed user is registered in this generation under the returned id, its credential
   authenticates the segment, and a fallback (non-hint) origin is impossible when hints are mandatory *)
Theorem C07_attr_sound : forall U (hint auth : U -> bool) users cached mandatory i u o,
  r_hit (try_state U hint auth users cached mandatory) = Some (i, u, o) ->
  user_by_id U users i = Some u /\ In u users /\ auth u = true /\ hint u = origin_hint o /\
  (mandatory = true -> origin_hint o = true).
Proof. exact attr_sound. Qed.
Print Assumptions C07_attr_sound.

(* rejected => no eligible registered user authenticates (eligible: hint-matching when mandatory) *)
Theorem C07_attr_complete : forall U (hint auth : U -> bool) users cached mandatory,
  r_hit (try_state U hint auth users cached mandatory) = None ->
  forall i u, user_by_id U users i = Some u -> (mandatory = true -> hint u = true) -> auth u = false.
Proof. exact attr_complete. Qed.
Print Assumptions C07_attr_complete.

(* accept/reject never depends on the cache content, whatever the credentials *)
Theorem C07_accept_iff : forall U (hint auth : U -> bool) users cached mandatory,
  r_hit (try_state U hint auth users cached mandatory) <> None <->
  exists i u, user_by_id U users i = Some u /\ auth u = true /\ (mandatory = true -> hint u = true).
Proof. exact attr_accept_iff. Qed.
Print Assumptions C07_accept_iff.

(* a hint-matching authenticating user exists => the result hint-matches *)
Theorem C07_attr_hint_pref : forall U (hint auth : U -> bool) users cached mandatory,
  (exists i u, user_by_id U users i = Some u /\ hint u = true /\ auth u = true) ->
  exists j v o, r_hit (try_state U hint auth users cached mandatory) = Some (j, v, o) /\
                hint v = true /\ origin_hint o = true.
Proof. exact attr_hint_pref. Qed.
Print Assumptions C07_attr_hint_pref.

(* each user is tried at most once, for every cached list that fits the attempted array ... *)
Theorem C07_attr_once : forall U (hint auth : U -> bool) users cached mandatory,
  N.of_nat (length cached) <= att_cap ->
  NoDup (r_tried (try_state U hint auth users cached mandatory)).
Proof. exact attr_once. Qed.
Print Assumptions C07_attr_once.

(* ... in particular for every list a reachable cache returns; and only registered users are tried *)
Theorem C07_attr_once_reachable : forall U (hint auth : U -> bool) users mandatory bidx ops key now,
  NoDup (r_tried (try_state U hint auth users (lookup bidx (run bidx ops) key now) mandatory)).
Proof. exact attr_once_reachable. Qed.
Print Assumptions C07_attr_once_reachable.

Theorem C07_attr_tried_registered : forall U (hint auth : U -> bool) users cached mandatory i,
  In i (r_tried (try_state U hint auth users cached mandatory)) -> exists u, user_by_id U users i = Some u.
Proof. exact attr_tried_registered. Qed.
Print Assumptions C07_attr_tried_registered.

(* distinct credentials (at most one registered user authenticates the segment): accept/reject and
   the attributed user are the same for EVERY cached list, hence for every cache content and source *)
Theorem C07_cache_independent : forall U (hint auth : U -> bool) users mandatory,
  distinct_credentials U auth users ->
  forall cached cached',
    outcome U (try_state U hint auth users cached mandatory) =
    outcome U (try_state U hint auth users cached' mandatory).
Proof. exact cache_independent. Qed.
Print Assumptions C07_cache_independent.

(* shared credentials: a unique hint-matching authenticating user is still the result for every cache *)
Theorem C07_cache_independent_hinted : forall U (hint auth : U -> bool) users mandatory i u,
  user_by_id U users i = Some u -> hint u = true -> auth u = true ->
  (forall j v, user_by_id U users j = Some v -> hint v = true -> auth v = true -> j = i) ->
  forall cached, outcome U (try_state U hint auth users cached mandatory) = Some (i, u).
Proof. exact cache_independent_hinted. Qed.
Print Assumptions C07_cache_independent_hinted.

(* requireCurrent: the generation used is the one returned by the final load; earlier attempts
   were discarded because the generation had been replaced; the user is registered in it *)
Theorem C07_discover_current : forall U (hint auth : U -> bool) its g i u o t,
  discover_loop U hint auth true its = DOk g i u o t ->
  exists pre it post,
    its = pre ++ it :: post /\ it_state it = Some g /\ it_check it = Some (g_id g) /\
    (forall it', In it' pre -> retried U it') /\
    user_by_id U (g_users g) i = Some u /\ In u (g_users g) /\ auth u = true /\
    (it_mand it = true -> hint u = true).
Proof. exact discover_current. Qed.
Print Assumptions C07_discover_current.

(* either mode: a discovery whose loads all happen after publication number k never uses an older
   generation, so a credential that is not registered in generation >= k cannot be accepted *)
Theorem C07_discover_not_older : forall U (hint auth : U -> bool) rc its g i u o t k,
  discover_loop U hint auth rc its = DOk g i u o t ->
  (forall it g', In it its -> it_state it = Some g' -> k <= g_id g') ->
  k <= g_id g /\ user_by_id U (g_users g) i = Some u /\ In u (g_users g) /\ auth u = true.
Proof. exact discover_not_older. Qed.
Print Assumptions C07_discover_not_older.

Theorem C07_discover_reject_complete : forall U (hint auth : U -> bool) rc its,
  discover_loop U hint auth rc its = DNoAuth ->
  exists it g, In it its /\ it_state it = Some g /\
    forall i u, user_by_id U (g_users g) i = Some u -> (it_mand it = true -> hint u = true) -> auth u = false.
Proof. exact discover_reject_complete. Qed.
Print Assumptions C07_discover_reject_complete.

(* ids returned by a lookup were recorded for that very key, at a tick whose age mod 2^32 is below
   the lifetime; never id 0 *)
Theorem C07_cache_lookup_sound : forall bidx ops key now id,
  In id (lookup bidx (run bidx ops) key now) ->
  id <> 0 /\ exists t, In (ORecord key id t) ops /\ age now t < life.
Proof. exact cache_lookup_sound. Qed.
Print Assumptions C07_cache_lookup_sound.

Theorem C07_cache_lookup_sound_real : forall bidx ops key Tn id,
  In id (lookup bidx (run bidx ops) key (Tn mod W32)) ->
  exists t, In (ORecord key id t) ops /\
    forall T0, t = T0 mod W32 -> T0 <= Tn -> Tn - T0 < W32 -> Tn - T0 < life.
Proof. exact cache_lookup_sound_real. Qed.
Print Assumptions C07_cache_lookup_sound_real.

Theorem C07_cache_lookup_bounded : forall bidx ops key now,
  N.of_nat (length (lookup bidx (run bidx ops) key now)) <= att_cap.
Proof. exact cache_lookup_bounded. Qed.
Print Assumptions C07_cache_lookup_bounded.

Theorem C07_cache_retired_inert : forall bidx ops ops' key now,
  lookup bidx (fold_left (step bidx) ops' (run bidx (ops ++ [ORetire]))) key now = [].
Proof. exact cache_retired_inert. Qed.
Print Assumptions C07_cache_retired_inert.

(* UDP existing-session shortcut: it applies only to a session from exactly the same socket
   address whose cipher opens the datagram *)
Theorem C07_shortcut_same_peer : forall opens ss ip port s,
  shortcut same_peer opens ss ip port = Some s ->
  In s ss /\ us_ip s = ip /\ us_port s = port /\ opens s = true.
Proof. exact shortcut_same_peer. Qed.
Print Assumptions C07_shortcut_same_peer.

(* sessions from other sockets (same IP or not, ciphers that open the datagram or not) never
   influence the attribution of a first segment *)
Theorem C07_shortcut_other_sockets_irrelevant : forall opens ss ip port disc,
  (forall s, In s ss -> us_ip s = ip -> us_port s <> port) ->
  udp_attribute same_peer opens ss ip port disc = disc.
Proof. exact shortcut_other_sockets_irrelevant. Qed.
Print Assumptions C07_shortcut_other_sockets_irrelevant.

(* every new UDP session is attributed what discovery answers for its first segment, for every
   history of session openings, every order, every family of session ciphers (shared credentials) *)
Theorem C07_existing_session_shortcut_sound : forall D evs ss,
  sessions_ok D ss ->
  (forall e, In e evs -> ev_disc e = D (ev_ip e) (ev_port e)) ->
  snd (udp_run same_peer ss evs) = map ev_disc evs /\ sessions_ok D (fst (udp_run same_peer ss evs)).
Proof. exact existing_session_shortcut_sound. Qed.
Print Assumptions C07_existing_session_shortcut_sound.

(* and the port comparison is necessary for that *)
Theorem C07_shortcut_port_needed :
  exists evs D, sessions_ok D [] /\ (forall e, In e evs -> ev_disc e = D (ev_ip e) (ev_port e)) /\
    snd (udp_run ip_only_peer [] evs) <> map ev_disc evs.
Proof. exact shortcut_port_needed. Qed.
Print Assumptions C07_shortcut_port_needed.
