(* C18 — UDP-associate tunnelling preserves datagram boundaries, contents and addressing.
   Statements only; each is closed by [exact] of a lemma of proofs/FrameProofs.v or proofs/Socks5UdpProofs.v.
   Sizes are N (lenN); MAXLEN = 65535 comes from the regenerated constants. *)
From Coq Require Import NArith ZArith List.
From M Require Import gen.Consts model.Frame model.Socks5Udp proofs.FrameProofs proofs.Socks5UdpProofs.
Import ListNotations.
Open Scope N_scope.

(* chunking independence of the reader: feeding a ++ b is feeding a, then b *)
Theorem C18_feed_app : forall cap a b ph,
  feed cap ph (a ++ b) = (let (e1, p1) := feed cap ph a in let (e2, p2) := feed cap p1 b in (e1 ++ e2, p2)).
Proof. exact feed_app. Qed.
Print Assumptions C18_feed_app.

(* every list of datagrams the writer accepts (each 0..MAXLEN bytes, any byte values), every chunking of the
   stream, every reader buffer that holds each datagram: exactly that list, in order, then a clean EOF *)
Theorem C18_frame_stream_roundtrip : forall cap ds s chunks,
  write_all ds = Some s ->
  Forall (fun d => lenN d <= cap) ds ->
  concat chunks = s ->
  feed_chunks cap PStart chunks = (map EvD ds, PStart) /\
  read_loop cap s = map EvD ds ++ [EvErr EEof].
Proof. exact frame_stream_roundtrip. Qed.
Print Assumptions C18_frame_stream_roundtrip.

(* with the relay's buffer (>= MAXLEN) the only condition is the size limit of the length field *)
Theorem C18_frame_stream_roundtrip_maxbuf : forall cap ds chunks,
  MAXLEN <= cap ->
  Forall (fun d => lenN d <= MAXLEN) ds ->
  concat chunks = concat (map frame ds) ->
  write_all ds = Some (concat (map frame ds)) /\
  feed_chunks cap PStart chunks = (map EvD ds, PStart).
Proof. exact frame_stream_roundtrip_maxbuf. Qed.
Print Assumptions C18_frame_stream_roundtrip_maxbuf.

(* an oversized datagram is refused by the writer: nothing of the sequence reaches the stream model-wise *)
Theorem C18_write_oversize : forall ds1 d ds2, MAXLEN < lenN d -> write d = None /\ write_all (ds1 ++ d :: ds2) = None.
Proof. exact write_oversize. Qed.
Print Assumptions C18_write_oversize.

(* bad start marker / length above the reader's buffer / bad end marker / truncation, after any number of good
   frames: the loop delivers exactly the good datagrams, then that error, and nothing else *)
Theorem C18_frame_error : forall cap ds, Forall (fun d => lenN d <= cap) ds ->
  let pre := concat (map frame ds) in
  (forall b rest, b <> START ->
     read_loop cap (pre ++ b :: rest) = map EvD ds ++ [EvErr EBadStart]) /\
  (forall hi lo rest, cap < hi * 256 + lo ->
     read_loop cap (pre ++ START :: hi :: lo :: rest) = map EvD ds ++ [EvErr EShortBuf]) /\
  (forall d b rest, lenN d <= cap -> b <> END_ ->
     read_loop cap (pre ++ START :: lenN d / 256 :: lenN d mod 256 :: d ++ b :: rest) = map EvD ds ++ [EvErr EBadEnd]) /\
  (forall d p q, lenN d <= cap -> frame d = p ++ q -> q <> [] ->
     exists e, (e = EEof \/ e = EUnexpectedEof) /\ read_loop cap (pre ++ p) = map EvD ds ++ [EvErr e]).
Proof. exact frame_error. Qed.
Print Assumptions C18_frame_error.

(* on ANY stream of bytes the loop ends with exactly one error, and everything it delivered before is literally
   framed at the front of the stream: never a wrong datagram, no resynchronisation *)
Theorem C18_read_loop_sound : forall cap s, bytes_ok s -> exists ds e rest,
  read_loop cap s = map EvD ds ++ [EvErr e] /\ s = concat (map frame ds) ++ rest /\
  Forall (fun d => lenN d <= cap) ds.
Proof. exact read_loop_sound. Qed.
Print Assumptions C18_read_loop_sound.

(* SOCKS5 UDP header: parse (build addr payload) = (addr, payload) for IPv4 / IPv6 / domain, all payloads *)
Theorem C18_udp_header_roundtrip : forall a payload pkt,
  port a < 65536 ->
  (to16 (ip a) = None -> lenN (fqdn a) <= 255) ->
  build_dgram a payload = Some pkt ->
  exists hdr, build_dgram a [] = Some hdr /\ pkt = hdr ++ payload /\
              parse pkt = POk (canon a) hdr payload.
Proof. exact udp_header_roundtrip. Qed.
Print Assumptions C18_udp_header_roundtrip.

(* the parser rejects: too short, reserved bytes, fragment flag, unknown address type *)
Theorem C18_udp_header_rejects :
  (forall pkt, lenN pkt <= SHORT -> parse pkt = PErr PNoData) /\
  (forall b0 b1 b2 r, SHORT < lenN (b0 :: b1 :: b2 :: r) -> (b0 <> 0 \/ b1 <> 0) -> parse (b0 :: b1 :: b2 :: r) = PErr PInvalid) /\
  (forall b2 r, SHORT < lenN (0 :: 0 :: b2 :: r) -> b2 <> 0 -> parse (0 :: 0 :: b2 :: r) = PErr PUnsupported) /\
  (forall t r, SHORT < lenN (0 :: 0 :: 0 :: t :: r) -> t <> ATYP4 -> t <> ATYP6 -> t <> ATYPD ->
     parse (0 :: 0 :: 0 :: t :: r) = PErr PAddrType) /\
  (forall pkt a h p, parse pkt = POk a h p -> pkt = h ++ p /\ forall p', parse (h ++ p') = POk a h p').
Proof. exact udp_header_rejects. Qed.
Print Assumptions C18_udp_header_rejects.

(* each datagram of the client goes, payload unchanged, to the destination named in its header;
   a malformed header ends the association with that error *)
Theorem C18_relay_dest_is_header : forall m pkt dns a h p,
  parse pkt = POk a h p ->
  pkt = h ++ p /\
  (forall v, to16 (ip a) = Some v ->
     relay_step m (Up pkt dns) = (memo_set m (key (mkUdp (ip a) (port a))) h, OSend (mkUdp (ip a) (port a)) p)) /\
  (forall i, to16 (ip a) = None -> fqdn a <> [] -> dns = Some i ->
     relay_step m (Up pkt dns) = (memo_set m (key (mkUdp i (port a))) h, OSend (mkUdp i (port a)) p)) /\
  (to16 (ip a) = None -> (fqdn a = [] \/ dns = None) -> relay_step m (Up pkt dns) = (m, ODrop)).
Proof. exact relay_dest_is_header. Qed.
Print Assumptions C18_relay_dest_is_header.

Theorem C18_relay_bad_header_stops : forall m pkt dns e, parse pkt = PErr e ->
  relay_step m (Up pkt dns) = (m, OStopParse e).
Proof. exact relay_bad_header_stops. Qed.
Print Assumptions C18_relay_bad_header_stops.

(* after every history of the association: a reply = header ++ payload exactly as received, it fits a frame,
   and the header's address designates the sender *)
Theorem C18_reply_header_is_sender : forall hist s payload m' pkt,
  Forall wf_in hist -> uport s < 65536 ->
  relay_step (relay_memo hist) (Down s payload) = (m', OClient pkt) ->
  exists a h, pkt = h ++ payload /\ parse pkt = POk a h payload /\ designates hist a h (key s) /\
              write pkt = Some (frame pkt).
Proof. exact reply_header_is_sender. Qed.
Print Assumptions C18_reply_header_is_sender.

(* API wrapper (with fixes/C18-wrapper-empty-payload.diff): every payload, the empty one included *)
Theorem C18_wrapper_roundtrip : forall cap p to b,
  uport to < 65536 -> lenN p <= cap ->
  wrapper_write p to = Some b ->
  wrapper_read cap b = WOk p (mkUdp (norm_ip (uip to)) (uport to)).
Proof. exact wrapper_roundtrip. Qed.
Print Assumptions C18_wrapper_roundtrip.
