(* C20 — configuration handling is total, lossless, and keeps server passwords hashed.
   Statements only; each is closed by [exact] of a lemma of proofs/ConfigProofs.v.
   Scope (see checks/c20.py ASSUMPTIONS): mieru's own logic — merge of patches, hashing before storing,
   guards and slicing of the link parsers, port / port-range parsing.  protobuf, protojson, base64, net/url
   enter as arbitrary inputs (the theorems hold for every answer the library could give). *)
From Coq Require Import List NArith ZArith Bool.
From M Require Import gen.Consts model.Config proofs.ConfigProofs.
Import ListNotations.

(* applying a server patch changes only what the patch sets; users are merged by name, users the patch
   does not name are unchanged, nobody disappears, nothing is invented *)
Theorem C20_merge_server_only_set : forall old patch : server_cfg,
  let r := merge_server old patch in
  takes (s_ports r) (s_ports patch) (s_ports old) /\
  takes (s_adv r) (s_adv patch) (s_adv old) /\
  takes_z (s_log r) (s_log patch) (s_log old) /\
  takes_z (s_mtu r) (s_mtu patch) (s_mtu old) /\
  takes (s_egress r) (s_egress patch) (s_egress old) /\
  takes (s_dns r) (s_dns patch) (s_dns old) /\
  takes (s_tp r) (s_tp patch) (s_tp old) /\
  (forall name, find_last uname name (s_users r) =
                match find_last uname name (s_users patch) with
                | Some u => Some u
                | None => find_last uname name (s_users old)
                end) /\
  names_sorted uname (s_users r) /\
  (forall u, In u (s_users r) -> In u (s_users patch) \/ In u (s_users old)).
Proof. exact merge_server_only_set. Qed.
Print Assumptions C20_merge_server_only_set.

Theorem C20_merge_server_idempotent : forall old patch,
  merge_server (merge_server old patch) patch = merge_server old patch.
Proof. exact merge_server_idempotent. Qed.
Print Assumptions C20_merge_server_idempotent.

Theorem C20_merge_client_only_set : forall old patch : client_cfg,
  let r := merge_client old patch in
  takes_b (c_active r) (c_active patch) (c_active old) /\
  takes (c_rpc r) (c_rpc patch) (c_rpc old) /\
  takes_z (c_socks5 r) (c_socks5 patch) (c_socks5 old) /\
  takes (c_adv r) (c_adv patch) (c_adv old) /\
  takes_z (c_log r) (c_log patch) (c_log old) /\
  takes (c_s5lan r) (c_s5lan patch) (c_s5lan old) /\
  takes (c_http r) (c_http patch) (c_http old) /\
  takes (c_httplan r) (c_httplan patch) (c_httplan old) /\
  takes (c_auth r) (c_auth patch) (c_auth old) /\
  (forall name, find_last pname name (c_profiles r) =
                match find_last pname name (c_profiles patch) with
                | Some p => Some p
                | None => find_last pname name (c_profiles old)
                end) /\
  names_sorted pname (c_profiles r) /\
  (forall p, In p (c_profiles r) -> In p (c_profiles patch) \/ In p (c_profiles old)).
Proof. exact merge_client_only_set. Qed.
Print Assumptions C20_merge_client_only_set.

Theorem C20_merge_client_idempotent : forall old patch,
  merge_client (merge_client old patch) patch = merge_client old patch.
Proof. exact merge_client_idempotent. Qed.
Print Assumptions C20_merge_client_idempotent.

(* for every hash function and every user list: after HashUserPasswords(users, false) no user carries a
   non-empty plaintext password; a user that had one gets H(pw || 0 || name); everything else is untouched *)
Theorem C20_no_plaintext : forall (H : bytes -> bytes) (us : list user),
  Forall no_plaintext (hash_users H false us) /\
  Forall2 (hashed_from H false) us (hash_users H false us).
Proof. exact hash_users_no_plaintext. Qed.
Print Assumptions C20_no_plaintext.

(* ... in particular whatever ApplyJSONServerConfig loads and merges, what it writes has no plaintext password,
   and storing changes nothing but the users' password fields *)
Theorem C20_apply_then_store_no_plaintext : forall (H : bytes -> bytes) old patch,
  Forall no_plaintext (s_users (store_server H (merge_server old patch))) /\
  (let c := merge_server old patch in
   let w := store_server H c in
   s_ports w = s_ports c /\ s_adv w = s_adv c /\ s_log w = s_log c /\ s_mtu w = s_mtu c /\
   s_egress w = s_egress c /\ s_dns w = s_dns c /\ s_tp w = s_tp c /\
   Forall2 (hashed_from H false) (s_users c) (s_users w)).
Proof. exact apply_then_store_no_plaintext. Qed.
Print Assumptions C20_apply_then_store_no_plaintext.

(* the client store keeps the plaintext password (the client needs it) and only adds the hash *)
Theorem C20_store_client_only_adds_hash : forall (H : bytes -> bytes) c,
  let w := store_client H c in
  c_active w = c_active c /\ c_rpc w = c_rpc c /\ c_socks5 w = c_socks5 c /\ c_adv w = c_adv c /\
  c_log w = c_log c /\ c_s5lan w = c_s5lan c /\ c_http w = c_http c /\ c_httplan w = c_httplan c /\
  c_auth w = c_auth c /\
  Forall2 (fun p p' => p_name p' = p_name p /\ p_rest p' = p_rest p /\
                       match p_user p with
                       | None => p_user p' = None
                       | Some u => exists u', p_user p' = Some u' /\ hashed_from H true u u'
                       end) (c_profiles c) (c_profiles w).
Proof. exact store_client_spec. Qed.
Print Assumptions C20_store_client_only_adds_hash.

(* mieru:// links (URLToClientConfig with fixes/C20-short-link-slice.diff): no string and no answer of
   url.Parse leads to the s[8:] panic ... *)
Theorem C20_link_parse_total : forall (s : bytes) (u : url_lib), link_guard s u <> Panic.
Proof. exact link_guard_total. Qed.
Print Assumptions C20_link_parse_total.

(* ... and what reaches the base64 decoder is exactly the text after "mieru://" *)
Theorem C20_link_payload : forall s u p,
  link_guard s u = Ok p ->
  s = s_mieru_prefix ++ p /\ ul_ok u = true /\ ul_scheme u = s_mieru /\ ul_opaque u = [].
Proof. exact link_guard_payload. Qed.
Print Assumptions C20_link_payload.

(* the pinned commit (no guard before the slice) panics on "mieru:"; it is total only from length 8 on *)
Theorem C20_short_link_refuted_before_fix : exists s u, ul_ok u = true /\ link_guard_v0 s u = Panic.
Proof. exact link_guard_v0_panics. Qed.
Print Assumptions C20_short_link_refuted_before_fix.

Theorem C20_short_link_partial_before_fix : forall s u, (8 <= length s)%nat -> link_guard_v0 s u <> Panic.
Proof. exact link_guard_v0_partial. Qed.
Print Assumptions C20_short_link_partial_before_fix.

(* mierus:// links (URLToClientProfile): for every answer of the URL library the importer returns a profile
   or an error; protocolList[idx] is never out of range *)
Theorem C20_simple_link_parse_total : forall u : surl_lib, simple_link u <> Panic.
Proof. exact simple_link_total. Qed.
Print Assumptions C20_simple_link_parse_total.

(* a port range string is accepted by FlatPortBindings iff it is <digits>-<digits> with 1 <= a <= b <= 65535 *)
Theorem C20_port_range_valid_iff : forall s a b,
  parse_port_range s = Some (a, b) <-> port_range_spec s a b.
Proof. exact parse_port_range_iff. Qed.
Print Assumptions C20_port_range_valid_iff.

(* ports and ranges accepted by the link importer are within 1..65535 and ordered *)
Theorem C20_url_ports_in_range : forall s,
  (forall p, parse_url_port s = inl (UPort p) -> (1 <= p <= 65535)%Z) /\
  (forall a b, parse_url_port s = inl (URange a b) -> (1 <= a <= 65535)%Z /\ (1 <= b <= 65535)%Z /\ (a <= b)%Z).
Proof. exact (fun s => conj (url_port_ok s) (url_range_ports_ok s)). Qed.
Print Assumptions C20_url_ports_in_range.

(* ---------------------------------------------------------------- validated configurations *)

(* what the code guarantees when two VALIDATED server configurations are merged: the patch-level validity
   always survives; full validity survives unless the patch carries a non-nil empty portBindings list
   (witness below: ApplyJSONServerConfig re-validates after the merge and rejects it) *)
Theorem C20_validated_merge_validated : forall old patch,
  (validate_server_patch old = 0%N -> validate_server_patch patch = 0%N ->
   validate_server_patch (merge_server old patch) = 0%N) /\
  (validate_full_server old = 0%N -> validate_server_patch patch = 0%N -> s_ports patch <> Some [] ->
   validate_full_server (merge_server old patch) = 0%N).
Proof. exact (fun old patch => conj (merge_server_patch_valid old patch) (merge_server_full_valid old patch)). Qed.
Print Assumptions C20_validated_merge_validated.

Theorem C20_validated_merge_empty_ports_refuted :
  validate_full_server ex_full_old = 0%N /\ validate_server_patch ex_empty_ports_patch = 0%N /\
  validate_full_server (merge_server ex_full_old ex_empty_ports_patch) = 10%N.
Proof. exact merge_server_empty_ports_invalid. Qed.
Print Assumptions C20_validated_merge_empty_ports_refuted.

(* client: patch-level validity survives; a patch that leaves activeProfile / rpcPort / socks5Port / httpProxyPort
   alone keeps a valid configuration valid *)
Theorem C20_validated_merge_client_validated : forall old patch,
  (validate_client_patch old = 0%N -> validate_client_patch patch = 0%N ->
   validate_client_patch (merge_client old patch) = 0%N) /\
  (validate_full_client old = 0%N -> validate_client_patch patch = 0%N ->
   c_active patch = None -> c_rpc patch = None -> c_socks5 patch = None -> c_http patch = None ->
   validate_full_client (merge_client old patch) = 0%N).
Proof. exact (fun old patch => conj (merge_client_patch_valid old patch) (merge_client_full_valid old patch)). Qed.
Print Assumptions C20_validated_merge_client_validated.

(* ... but in general a VALID client configuration merged with a VALID patch is INVALID (the patch validator
   looks neither at the ports nor at the active profile); applyClientConfig re-validates the result *)
Theorem C20_validated_merge_client_full_refuted :
  validate_full_client ex_client = 0%N /\
  validate_client_patch ex_bad_port_patch = 0%N /\
  validate_full_client (merge_client ex_client ex_bad_port_patch) = 57%N /\
  validate_client_patch ex_bad_active_patch = 0%N /\
  validate_full_client (merge_client ex_client ex_bad_active_patch) = 55%N.
Proof. exact merge_client_full_can_be_invalid. Qed.
Print Assumptions C20_validated_merge_client_full_refuted.

(* storing a validated server configuration: the model's store has no error branch, and what is written is again
   a valid configuration (so it can be reloaded and started) without a plaintext password; premise: the hash
   output is never the empty string *)
Theorem C20_validated_store_total : forall (H : bytes -> bytes), (forall x, H x <> []) -> forall c,
  validate_full_server c = 0%N ->
  validate_full_server (store_server H c) = 0%N /\ Forall no_plaintext (s_users (store_server H c)).
Proof. exact store_valid_server. Qed.
Print Assumptions C20_validated_store_total.

(* export then import of a mierus:// link (exporter with the fix 04ca7f3 "uses the port of a binding that has both a
   port and a port range"): for EVERY validated profile and every server of it, under faithful library steps
   (hypotheses), if the exporter produces a link the importer returns the part of the profile a link carries.
   Remaining premises, all about library code: itoa/atoi, base64 emptiness, non-empty enum names; the transport of
   user, password, host and query values by url.String/url.Parse and of enum numbers by the name tables is what
   link_as_parsed assumes.  "export_server = Some f" holds for a validated profile iff its password is non-empty
   (a hash-only profile cannot be shared as a link). *)
Theorem C20_validated_link_roundtrip :
  forall (itoa : Z -> bytes) (b64 : bytes -> bytes) (mux_name hs_name : Z -> bytes),
  (forall n, (- 2 ^ 31 <= n < 2 ^ 31)%Z -> atoi (itoa n) = Some n) ->
  (forall x, b64 x = [] <-> x = []) ->
  (forall v, mux_name v <> []) -> (forall v, hs_name v <> []) ->
  forall p s f,
  validate_profile p = 0%N -> In s (p_servers p) ->
  export_server p s = Some f ->
  simple_link (link_as_parsed itoa b64 mux_name hs_name f) = Ok (simple_view p s f).
Proof. exact link_roundtrip. Qed.
Print Assumptions C20_validated_link_roundtrip.

(* the exporter of the pinned commit failed on a validated profile with a binding {port, garbage range} *)
Theorem C20_validated_link_roundtrip_refuted_before_fix :
  validate_profile ex_ambiguous_profile = 0%N /\
  exists s f, In s (p_servers ex_ambiguous_profile) /\ export_server_v0 ex_ambiguous_profile s = Some f /\
    forall itoa b64 mn hn, simple_link (link_as_parsed itoa b64 mn hn f) = Err 14.
Proof. exact link_roundtrip_v0_ambiguous_binding_fails. Qed.
Print Assumptions C20_validated_link_roundtrip_refuted_before_fix.

(* ---------------------------------------------------------------- operation histories (one process, one file) *)

(* a rejected operation (malformed text, invalid patch, patch whose merge fails the full validation, no file) at
   any point of any history leaves the stored configuration AND every later observation unchanged *)
Theorem C20_rejected_apply_is_noop : forall (H : bytes -> bytes) h1 o h2 s,
  is_rejected (snd (step H (fst (run_outs H s h1)) o)) = true ->
  fst (run_outs H s (h1 ++ o :: h2)) = fst (run_outs H s (h1 ++ h2)) /\
  exists c, snd (run_outs H s (h1 ++ o :: h2)) =
            snd (run_outs H s h1) ++ Rejected c :: snd (run_outs H (fst (run_outs H s h1)) h2) /\
            snd (run_outs H s (h1 ++ h2)) =
            snd (run_outs H s h1) ++ snd (run_outs H (fst (run_outs H s h1)) h2).
Proof. exact rejected_apply_is_noop. Qed.
Print Assumptions C20_rejected_apply_is_noop.

(* Load / GetJSON return exactly what is stored and store nothing; after a write that reported w they return w *)
Theorem C20_load_returns_stored : forall (H : bytes -> bytes) s o,
  let s' := fst (step H s o) in
  step H s' OpLoad = (s', match s' with Some c => Accepted (Some c) | None => Rejected 101 end) /\
  step H s' OpGetJSON = step H s' OpLoad /\
  (forall w, snd (step H s o) = Accepted w -> s' = w) /\
  (match o with OpLoad | OpGetJSON => s' = s | _ => True end).
Proof. exact load_returns_stored. Qed.
Print Assumptions C20_load_returns_stored.

(* over every history: no plaintext password in the file or in anything returned *)
Theorem C20_history_no_plaintext : forall (H : bytes -> bytes) h s, store_clean s ->
  store_clean (fst (run_outs H s h)) /\ Forall out_clean (snd (run_outs H s h)).
Proof. exact history_no_plaintext. Qed.
Print Assumptions C20_history_no_plaintext.

(* a validated user name is 1..MaxUserNameLen BYTES long, which is the precondition of the user-hint computation
   (cipher.addUserHintToNonce / CheckUserFromHint panic otherwise); the whole name is hashed *)
Theorem C20_validated_name_fits_hint : forall prefix, blen prefix = NoncePrefixLenForUserHint ->
  (forall u, validate_user u = 0%N -> hint_input (uname u) prefix = Ok (uname u ++ prefix)) /\
  (forall p, validate_profile p = 0%N -> hint_input (uname (puser p)) prefix = Ok (uname (puser p) ++ prefix)).
Proof. exact validated_name_fits_hint. Qed.
Print Assumptions C20_validated_name_fits_hint.
