(* C03 - graceful close never turns a partial transfer into a clean end-of-stream.
   Statements only; each is closed by [exact] of a lemma of proofs/CloseProtoProofs.v.
   Model: model/CloseProto.v (one direction of one session, both transports, close, two-step Read).
   [current_cfg] is the tree as it is now (with fixes/C03-read-eof-before-queued-data.diff and
   fixes/C03-ack-advances-lastsend.diff applied), [prefix_cfg] the pinned tree.

   The desired statement
     no_clean_truncation c := forall sched st, run c init sched = Some st -> written st = c_n c -> rd st = REof -> complete c st
   is FALSE of the code (on UDP by loss or reordering around the close or by a window that stays closed for the
   bounded wait; on TCP only if the output loop does not run at all during the wait): the _refuted theorems give
   the schedules.  The _partial theorems say what holds for every schedule. *)
From Coq Require Import List ZArith NArith Bool.
From M Require Import gen.Consts model.CloseProto proofs.CloseProtoProofs.
Import ListNotations.
Open Scope N_scope.

(* the desired statement, refuted on the current tree (UDP, one lost datagram) *)
Theorem C03_no_clean_truncation_refuted : ~ no_clean_truncation (current_cfg UDP 3 16 0).
Proof.
  intro H. destruct udp_loss_refuted as (sched & st & Hr & Hc & _).
  apply (clean_truncation_not_complete _ _ Hc). destruct Hc as (Hw & He & _). exact (H sched st Hr Hw He).
Qed.
Print Assumptions C03_no_clean_truncation_refuted.

(* (a) UDP, one data datagram lost, nothing else: Close returns normally after the close request has been transmitted
   once, sendBuf is discarded, the peer reads segment 0 and then a clean EOF; 1 and 2 are never retransmitted *)
Theorem C03_udp_loss_refuted :
  exists sched st, run (current_cfg UDP 3 16 0) init sched = Some st /\ clean_truncation (current_cfg UDP 3 16 0) st
                   /\ cph st = CClosed /\ discarded st = false /\ read_so_far st = [0].
Proof. exact udp_loss_refuted. Qed.
Print Assumptions C03_udp_loss_refuted.

(* (a') UDP, nothing lost, nothing duplicated: the close request overtakes two data datagrams and is acted upon at once *)
Theorem C03_udp_reorder_refuted :
  exists sched st, run (current_cfg UDP 3 16 0) init sched = Some st /\ clean_truncation (current_cfg UDP 3 16 0) st
                   /\ read_so_far st = [0].
Proof. exact udp_reorder_refuted. Qed.
Print Assumptions C03_udp_reorder_refuted.

(* (d) UDP, loss-free in-order network, the peer's application has not read yet and its receive window
   (segmentTreeCapacity, here scaled down to 2) is exhausted: the datagram is dropped on arrival and never retransmitted *)
Theorem C03_udp_receive_window_refuted :
  exists sched st, run (mkCfg UDP 3 close_wait_iterations true false 16 0 2 true) init sched = Some st
                   /\ clean_truncation (mkCfg UDP 3 close_wait_iterations true false 16 0 2 true) st /\ discarded st = false
                   /\ gap st = true /\ read_so_far st = [0; 1].
Proof. exact udp_receive_window_refuted. Qed.
Print Assumptions C03_udp_receive_window_refuted.

(* (b) UDP, loss-free network, send window closed for the whole bounded wait: the unsent rest of the queue is
   discarded, the close request is written directly *)
Theorem C03_backpressure_udp_refuted :
  exists sched st, run (current_cfg UDP 3 1 0) init sched = Some st /\ clean_truncation (current_cfg UDP 3 1 0) st
                   /\ discarded st = true /\ ticks st = close_wait_iterations /\ read_so_far st = [0].
Proof. exact udp_window_refuted. Qed.
Print Assumptions C03_backpressure_udp_refuted.

(* (b) TCP: the same needs an output loop that never takes oLock during the wait ... *)
Theorem C03_backpressure_tcp_starved_refuted :
  exists sched st, run (current_cfg TCP 3 0 0) init sched = Some st /\ clean_truncation (current_cfg TCP 3 0 0) st
                   /\ discarded st = true /\ read_so_far st = [].
Proof. exact tcp_starved_refuted. Qed.
Print Assumptions C03_backpressure_tcp_starved_refuted.

(* ... because network back-pressure alone keeps the loop inside its drain, where the direct write is not enabled *)
Theorem C03_backpressure_tcp_harmless : forall c st, olock st = true -> step c st CForce = None.
Proof. exact tcp_force_needs_olock. Qed.
Print Assumptions C03_backpressure_tcp_harmless.

Example C03_backpressure_tcp_example :
  exists st, run (current_cfg TCP 3 0 1) init w_tcp_backpressure = Some st /\ rd st = REof /\ complete (current_cfg TCP 3 0 1) st
             /\ discarded st = false /\ ticks st = close_wait_iterations.
Proof. exact tcp_backpressure_example. Qed.

(* (c) pinned tree: Read's emptiness test, then the last segment and the close arrive, then the select takes the
   closed case: EOF with a segment still queued.  Repaired by fixes/C03-read-eof-before-queued-data.diff. *)
Theorem C03_tcp_read_race_refuted_before_fix :
  exists sched st, run (prefix_cfg TCP 1 0 0) init sched = Some st /\ clean_truncation (prefix_cfg TCP 1 0 0) st
                   /\ rqueue st = [0] /\ discarded st = false.
Proof. exact tcp_read_race_refuted_before_fix. Qed.
Print Assumptions C03_tcp_read_race_refuted_before_fix.

Example C03_tcp_read_race_now :
  exists st, run (current_cfg TCP 1 0 0) init (w_tcp_race ++ [RTest; RTest; RWaitClosed]) = Some st /\ rd st = REof
             /\ complete (current_cfg TCP 1 0 0) st.
Proof. exact tcp_read_race_now. Qed.

(* pinned tree: an ack passing through output() stamps lastSend with the queued close request's number; Close returns
   after one iteration and discards unsent data and the close request.  Repaired by fixes/C03-ack-advances-lastsend.diff. *)
Theorem C03_udp_ack_stamp_refuted_before_fix :
  exists sched st, run (prefix_cfg UDP 3 1 0) init sched = Some st /\ cph st = CClosed /\ ticks st = 0 /\ discarded st = true
                   /\ udpnet st = [Data 0] /\ queue st = [].
Proof. exact udp_ack_stamp_refuted_before_fix. Qed.
Print Assumptions C03_udp_ack_stamp_refuted_before_fix.

(* what holds for EVERY schedule, both transports, two-step Read included (current tree), or any tree if the schedule
   treats Read as atomic: if the peer acted on the close request when all lower-numbered segments had arrived in
   order (gap = false: nothing lost or overtaken by the close request, nothing discarded unsent), the stream was
   in order (ooo = false; always on UDP) and no input error occurred, EOF implies that everything has been read *)
Theorem C03_in_order_close_partial : forall c sched st,
  run c init sched = Some st ->
  c_retest c = true \/ atomic_reads sched = true ->
  rd st = REof -> rerr st = false -> gap st = false -> ooo st = false ->
  complete c st.
Proof. exact eof_implies_complete. Qed.
Print Assumptions C03_in_order_close_partial.

Theorem C03_udp_lossless_partial : forall n win sched st,
  run (current_cfg UDP n win 0) init sched = Some st ->
  rd st = REof -> rerr st = false -> gap st = false -> ooo st = false ->
  complete (current_cfg UDP n win 0) st.
Proof. intros n win sched st H. apply (eof_implies_complete _ _ _ H). left. reflexivity. Qed.
Print Assumptions C03_udp_lossless_partial.

Theorem C03_tcp_drained_partial : forall n cap sched st,
  run (current_cfg TCP n 0 cap) init sched = Some st ->
  rd st = REof -> rerr st = false -> gap st = false -> ooo st = false ->
  complete (current_cfg TCP n 0 cap) st.
Proof. intros n cap sched st H. apply (eof_implies_complete _ _ _ H). left. reflexivity. Qed.
Print Assumptions C03_tcp_drained_partial.

Example C03_partial_nonvacuous :
  (exists st, run (current_cfg UDP 3 16 0) init w_udp_ok = Some st /\ rd st = REof /\ rerr st = false /\ gap st = false /\ ooo st = false
              /\ complete (current_cfg UDP 3 16 0) st) /\
  (exists st, run (current_cfg TCP 3 0 0) init w_tcp_ok = Some st /\ rd st = REof /\ rerr st = false /\ gap st = false /\ ooo st = false
              /\ discarded st = false /\ complete (current_cfg TCP 3 0 0) st).
Proof. split; [exact udp_ok_example | exact tcp_ok_example]. Qed.

(* what the application has read is always an in-order prefix of what was written *)
Theorem C03_reads_are_a_prefix : forall c sched st,
  run c init sched = Some st -> c_retest c = true -> ooo st = false ->
  read_so_far st ++ rqueue st = iota 0 (N.to_nat (nextRecv st)).
Proof. exact reads_are_a_prefix. Qed.
Print Assumptions C03_reads_are_a_prefix.

(* abnormal close: while inputErr is closed and closedChan is not, no step makes Read return EOF ... *)
Theorem C03_error_is_not_eof : forall c st ch st',
  step c st ch = Some st' -> rerr st = true -> rclosed st = false -> rd st <> REof -> rd st' <> REof \/ rclosed st' = true.
Proof. exact error_is_not_eof_step. Qed.
Print Assumptions C03_error_is_not_eof.

(* ... but closeWithError(err) closes closedChan right afterwards, and a Read that reaches its select then may take
   either case: an input error can surface as a clean EOF after a strict prefix *)
Theorem C03_error_then_eof_refuted :
  exists sched st, run (current_cfg TCP 2 0 0) init sched = Some st /\ rerr st = true /\ rd st = REof /\ read_so_far st = [0]
                   /\ written st = c_n (current_cfg TCP 2 0 0).
Proof. exact input_error_can_read_as_eof. Qed.
Print Assumptions C03_error_then_eof_refuted.

(* hand-off from the underlay event loop to the session through the bounded channel recvChan (blocking send, FIFO):
   for every capacity and every interleaving of the two loops the session handles the segments in dispatch order, so
   the delivery-time transitions of the model (and with them the theorems above) describe the code: a close request
   is acted upon only after everything dispatched before it *)
Theorem C03_handoff_in_order : forall c cap evs st st',
  hrun c cap (st, []) evs = Some (st', []) ->
  st' = fold_left (recv_input c) (dispatched evs) st.
Proof. exact handoff_in_order. Qed.
Print Assumptions C03_handoff_in_order.

(* ... and what goes wrong when a close request may bypass a full channel (closing the session directly from the event
   loop): in-order, loss-free arrival, yet the close request is acted upon with a gap and the held segment is dropped *)
Theorem C03_handoff_bypass_refuted :
  exists evs st, hrun_bypass (current_cfg TCP 2 0 0) 1 (init, []) evs = Some (st, []) /\ dispatched evs = [Data 0; Data 1; CloseReq 2] /\
                 rclosed st = true /\ gap st = true /\ rqueue st = [0] /\ nextRecv st = 1 /\
                 (exists st2, hrun (current_cfg TCP 2 0 0) 1 (init, []) (evs ++ [HInput]) = None /\
                              hrun (current_cfg TCP 2 0 0) 2 (init, []) (evs ++ [HInput; HInput]) = Some (st2, []) /\ gap st2 = false /\ rqueue st2 = [0; 1]).
Proof. exact handoff_bypass_refuted. Qed.
Print Assumptions C03_handoff_bypass_refuted.

(* ---- lock discipline of the TCP output loop (runOutputOnceStream holds oLock from its first DeleteMin until the queue is empty).
   Model: OStart takes oLock, ODeq = DeleteMin (the segment is "in flight" inside output()), OOut = the write completes (blocked while
   the connection does not take bytes); CForce = the fallback of closeWithError after the bounded wait; it needs oLock and, as it goes
   through the same underlay, nothing in flight.  c_lockdrain = false is the variant that gives oLock back right after DeleteMin. *)

(* the code, every schedule: while a segment is between DeleteMin and the completion of its output(), oLock is held and the fallback
   is not enabled: it can neither overtake that segment nor drop what was queued behind it before Close *)
Theorem C03_tcp_close_fallback_never_overtakes_inflight : forall c sched st,
  is_tcp c = true -> c_lockdrain c = true -> run c init sched = Some st -> inflight st <> None ->
  olock st = true /\ step c st CForce = None.
Proof. exact tcp_close_fallback_never_overtakes_inflight. Qed.
Print Assumptions C03_tcp_close_fallback_never_overtakes_inflight.

(* TCP, every schedule: the fallback is the only step that discards data; the regular end of the wait (lastSend >= closeRequestSeq)
   never does *)
Theorem C03_tcp_only_fallback_discards : forall c sched st ch st',
  is_tcp c = true -> run c init sched = Some st -> step c st ch = Some st' -> ch <> CForce -> discarded st' = discarded st.
Proof. exact tcp_only_fallback_discards. Qed.
Print Assumptions C03_tcp_only_fallback_discards.

(* the variant: segment 0 sits in a stalled write for the whole wait with 1 and 2 queued behind it; when the stall ends the fallback
   gets in before the next DeleteMin.  Nothing is lost on the wire; the peer reads [0] and a clean EOF.
   Relation to C03_backpressure_tcp_starved_refuted: THAT schedule contains no OStart/ODeq at all between Close and the expiry of the
   wait (the notified output goroutine does not run for a whole second); it is a limit of the model on the code as it is, needs no
   stall, and no driver run has shown it.  THIS schedule has the loop inside output() (ODeq done, OOut pending) when the wait expires;
   C03_tcp_close_fallback_never_overtakes_inflight excludes it for the code and it exists only with c_lockdrain = false. *)
Theorem C03_tcp_unlocked_output_refuted :
  exists sched st, run (mkCfg TCP 3 close_wait_iterations true false 0 0 segment_tree_capacity false) init sched = Some st
                   /\ clean_truncation (mkCfg TCP 3 close_wait_iterations true false 0 0 segment_tree_capacity false) st
                   /\ discarded st = true /\ tcpnet st = [] /\ read_so_far st = [0] /\ ticks st = close_wait_iterations.
Proof. exact tcp_unlocked_output_refuted. Qed.
Print Assumptions C03_tcp_unlocked_output_refuted.

Example C03_tcp_stall_now :
  (exists st, run (current_cfg TCP 3 0 0) init ([CWrite; CWrite; CWrite; CClose; OStart; ODeq] ++ repeat_choice CTick (N.to_nat close_wait_iterations) ++ [OOut]) = Some st
              /\ cph st = CExpired /\ queue st = [Data 1; Data 2; CloseReq 3] /\ step (current_cfg TCP 3 0 0) st CForce = None) /\
  (exists st, run (current_cfg TCP 3 0 0) init w_tcp_stall_now = Some st /\ rd st = REof /\ complete (current_cfg TCP 3 0 0) st /\ discarded st = false).
Proof. exact tcp_stall_now_example. Qed.

(* the sender never lets a successful Write take the last slot of its send queue: after every history of Writes (any
   fragment counts, a Write that is not admitted waits) and drains, closeWithError's Insert of the close request succeeds,
   so a graceful Close queues the request BEHIND the data instead of writing it at once and discarding the queue; with the
   admission test Remaining() >= n instead of Remaining() > n a history exists after which the queue is full (the driver's
   sendq-full scenarios look for a successful Write that leaves Remaining() = 0 and close at that instant) *)
Theorem C03_close_request_always_queued : forall evs : list qev,
  q_close_queued segment_tree_capacity (q_run true segment_tree_capacity evs) = true.
Proof. exact close_request_always_queued. Qed.
Print Assumptions C03_close_request_always_queued.

Theorem C03_close_request_slot_needs_strict_admission_refuted :
  exists evs, q_close_queued segment_tree_capacity (q_run false segment_tree_capacity evs) = false.
Proof. exact close_request_slot_refuted. Qed.
Print Assumptions C03_close_request_slot_needs_strict_admission_refuted.
