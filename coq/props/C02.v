(* C02 — UDP transport: reliable, ordered, exactly-once stream over a faulty network; progress.
   Statements only; each is closed by [exact] of a lemma of proofs/UdpProtoProofs.v.
   LTS theorems hold in every reachable state of model/UdpProto.v's transition system of one direction of one
   session (the other direction is a second instance), i.e. for every schedule and every sequence of losses,
   duplications, delays and reorderings.  Trace theorems hold of every recorded trace the executable acceptor
   accepts (the correspondence run shows that the traces of the real endpoints are accepted). *)
From Coq Require Import List NArith ZArith Bool Arith.
From M Require Import gen.Consts model.UdpProto proofs.UdpProtoProofs.
From M Require model.Sizes proofs.SizesProofs proofs.UdpSizesProofs.
Import ListNotations.
Open Scope nat_scope.

(* safety, full: the bytes read at one end are a prefix of the bytes written at the other ... *)
Theorem C02_udp_exactly_once : forall s, reach s -> exists rest, written_bytes s = read_bytes s ++ rest.
Proof. exact exactly_once_in_order. Qed.
Print Assumptions C02_udp_exactly_once.

(* ... equal once every segment was moved to the receive queue and every released byte read ... *)
Theorem C02_udp_exactly_once_complete : forall s, reach s ->
  next_recv s = length (assigned s) -> rd s = length (bytes_of (got s)) -> read_bytes s = written_bytes s.
Proof. exact exactly_once_complete. Qed.
Print Assumptions C02_udp_exactly_once_complete.

(* ... and what has been read is never revoked, re-delivered or reordered by a later step *)
Theorem C02_udp_read_stable : forall s l s', reach s -> lstep s l s' -> exists more, read_bytes s' = read_bytes s ++ more.
Proof. exact read_grows. Qed.
Print Assumptions C02_udp_read_stable.

Example C02_state_nonvacuous : reach ex_state /\ read_bytes ex_state = [1%N; 2%N; 3%N] /\ una ex_state = 1.
Proof. split; [exact ex_state_reach | split; reflexivity]. Qed.

(* progress, partial: while data is undelivered, a transmission of exactly the awaited segment is enabled
   (a retransmission regardless of the window if it was sent before, else a first transmission if the send
   window is open), and delivering it advances the receiver.  NOT proved: that the timers eventually fire, that
   an ack or heartbeat reopens a closed window, CUBIC/RTT arithmetic; the Go driver's oracle watches these. *)
Theorem C02_progress_partial : forall s, reach s -> next_recv s < length (assigned s) ->
  (next_recv s < sent_hi s \/ 0 < win s) ->
  exists l s1 c s2 s3,
    (l = LRetx (next_recv s) \/ l = LSendNew (next_recv s)) /\
    (next_recv s < sent_hi s -> l = LRetx (next_recv s)) /\
    lstep s l s1 /\ lstep s1 (LRecvData (next_recv s) c) s2 /\ lstep s2 LMove s3 /\
    next_recv s3 = S (next_recv s) /\ nth_error (assigned s) (next_recv s) = Some c.
Proof. exact progress_partial. Qed.
Print Assumptions C02_progress_partial.

Example C02_progress_nonvacuous : exists s, reach s /\ next_recv s < length (assigned s) /\ 0 < win s.
Proof. exact ex_state_undelivered. Qed.

(* unconditional progress is REFUTED on the model: with everything sent so far received and the send window
   closed, no transmission of the awaited segment is enabled until a window update arrives; the window
   hypothesis of C02_progress_partial is necessary.  (Before fix fixes/C02-server-write-before-open-response.diff
   the implementation got stuck in exactly this way - driver sig server-write-overtakes-open-response - because
   the only endpoint that could reopen the window, the still "opening" client, is not allowed to acknowledge.) *)
Theorem C02_progress_unconditional_refuted : exists s, reach s /\ next_recv s < length (assigned s) /\
  forall l s', lstep s l s' -> is_awaited s l = 0.
Proof. exact progress_unconditional_refuted. Qed.
Print Assumptions C02_progress_unconditional_refuted.

(* windows computed as the code does (wst: congestion window, the sender's view of the receiver's window, the
   receiver's free space, window values carried by every datagram of the reverse direction).  Every reachable
   windowed state projects to a reachable state of the basic system whose send window is
   min(cwnd - |sendBuf|, remoteWindowSize), so all theorems above apply to it. *)
Theorem C02_windowed_refines : forall s, wreach s -> reach (base s) /\ win (base s) = swin (base s) (cwnd s) (rwnd s).
Proof. exact wreach_base. Qed.
Print Assumptions C02_windowed_refines.

(* the window-reopening ack: in every reachable state the receiver can emit an ack carrying its current window
   and, when the sender processes it - WHATEVER its ack number, in particular an unchanged one (heartbeat) - the
   sender's view becomes the receiver's free space; with nothing in flight and free space the send window is > 0 *)
Theorem C02_window_reopen_enabled : forall s, wreach s ->
  exists s1 s2,
    wstep s (WSendAck (next_recv (base s))) s1 /\ wstep s1 (WRecvAck (next_recv (base s)) (rspace s)) s2 /\
    rwnd s2 = rspace s /\ cwnd s2 = cwnd s /\ rspace s2 = rspace s /\
    assigned (base s2) = assigned (base s) /\ next_recv (base s2) = next_recv (base s) /\ sent_hi (base s2) = sent_hi (base s) /\
    (next_recv (base s) = sent_hi (base s) -> win (base s2) = Nat.min (cwnd s) (rspace s)) /\
    (next_recv (base s) = sent_hi (base s) -> 0 < rspace s -> 0 < win (base s2)).
Proof. exact window_reopen_enabled. Qed.
Print Assumptions C02_window_reopen_enabled.

(* progress WITHOUT the window hypothesis: undelivered data and free space at the receiver => at most five steps
   (ack, its delivery, transmission of the awaited segment, its delivery, move) advance the receiver.  Fairness
   assumption on acks, explicit: the ack step taken here is DELIVERED - i.e. of the acks the receiver keeps
   emitting (on data, and one per heartbeat interval when idle) one eventually reaches the sender.  Still not
   proved: that the heartbeat timer fires (the driver's exact-window-closure family watches it). *)
Theorem C02_progress_by_ack : forall s, wreach s -> next_recv (base s) < length (assigned (base s)) -> 0 < rspace s ->
  exists ls s', wrun s ls s' /\ length ls <= 5 /\ next_recv (base s') = S (next_recv (base s)).
Proof. exact progress_by_ack. Qed.
Print Assumptions C02_progress_by_ack.

Example C02_window_nonvacuous : exists s, wreach s /\ next_recv (base s) < length (assigned (base s)) /\ rwnd s = 0 /\ win (base s) = 0 /\ 0 < rspace s.
Proof. exact ex_wreach. Qed.

(* peers with different MTUs: whatever legal MTU the PEER is configured with (mtu_ok: [1280,1500]), every datagram
   it builds - any segment of any Write with any padding draws, any control segment or ack - fits the buffer that
   readOneSegment hands to ReadFrom, for local MTU 1280, 1400 and 1500, client and server.  The buffer lengths are
   regenerated on every run by a behavioural probe (consts_c02.go runs readOneSegment on underlays with these local
   MTUs and records len(b)); if the constant 1500 shrinks or is replaced by the local MTU this theorem breaks. *)
Theorem C02_peer_mtu_independent : forall peer_mtu mode is_client first n cfg_mid cfg_end s p1 p2 b,
  SizesProofs.mtu_ok peer_mtu -> SizesProofs.mode_ok mode -> (0 <= n)%Z ->
  Sizes.emitted is_client first peer_mtu C14_TransportPacket mode n s ->
  Sizes.draws_ok peer_mtu C14_TransportPacket cfg_mid cfg_end s p1 p2 ->
  In b UdpSizesProofs.read_buf_lens -> (Sizes.dgram_len s p1 p2 <= b)%Z.
Proof. exact UdpSizesProofs.peer_mtu_independent. Qed.
Print Assumptions C02_peer_mtu_independent.

(* ... and a buffer of the minimal legal MTU would truncate a full-size fragment of a peer with the maximal one *)
Theorem C02_local_mtu_buffer_refuted : exists s p1 p2,
  Sizes.emitted true false C14_ServerMaxMTU C14_TransportPacket C14_ModeOff 4000 s /\
  Sizes.draws_ok C14_ServerMaxMTU C14_TransportPacket None None s p1 p2 /\ (Sizes.dgram_len s p1 p2 > C14_ServerMinMTU)%Z.
Proof. exact UdpSizesProofs.local_mtu_buffer_too_small. Qed.
Print Assumptions C02_local_mtu_buffer_refuted.

(* inputData never blocks: in EVERY receiver state every arriving segment is dropped or accepted at once - the
   session's input loop never waits for the application, so the single socket reader shared by all sessions of the
   underlay is never held up by a session whose application does not read; a full window means DROP. *)
Theorem C02_input_never_blocks : forall r d, snd (input_data r d) <> InBlocked.
Proof. exact input_never_blocks. Qed.
Print Assumptions C02_input_never_blocks.

Theorem C02_input_full_window_drops : forall r d, capN <= length (r_buf r) + r_queue r -> input_data r d = (r, InDropped).
Proof. exact input_full_window_drops. Qed.
Print Assumptions C02_input_full_window_drops.

(* the receive-window test is necessary: without it a full recvQueue makes the next segment wait for the application *)
Theorem C02_input_without_window_test_refuted : exists r d, r_queue r <= capN /\ snd (input_data_nocheck r d) = InBlocked.
Proof. exact input_nocheck_blocks. Qed.
Print Assumptions C02_input_without_window_test_refuted.

(* the receiver never goes backwards (rank n - next_recv never increases) *)
Theorem C02_rank_monotone : forall s l s', lstep s l s' -> next_recv s <= next_recv s'.
Proof. exact next_recv_mono. Qed.
Print Assumptions C02_rank_monotone.

(* ranking lemma under the explicit fairness hypothesis.  [fair_run K s t s']: a run from s to s' in every state
   of which fewer than K transmissions of the awaited segment have gone by since the receiver last advanced
   (the ghost counter [lost] counts every transmission, including the copy that finally arrives), containing t
   transmissions of awaited segments.  Then t < K * (advance + 1): K*u transmissions deliver at least u segments.
   K = txCountLimit + 1 is exactly "fewer than txCountLimit consecutive transmissions of one segment are all
   lost" (at most txCountLimit - 1 copies lost, the next one delivered): the sender gives up only when a segment
   has been transmitted txCountLimit times and is still unacknowledged at its next timer. *)
Theorem C02_fair_completion : forall K s t s' u, fair_run K s t s' -> K * u <= t -> next_recv s + u <= next_recv s'.
Proof. exact fair_completion. Qed.
Print Assumptions C02_fair_completion.

Theorem C02_fair_completion_txlimit : forall s t s' u,
  fair_run (S txCountLimit) s t s' -> S txCountLimit * u <= t -> next_recv s + u <= next_recv s'.
Proof. exact (fair_completion (S txCountLimit)). Qed.
Print Assumptions C02_fair_completion_txlimit.

Example C02_fair_nonvacuous : exists t s', fair_run 3 (mkSt [cA] 0 0 5 [] [] 0 [] [] 0 0) t s' /\ t = 2 /\ next_recv s' = 1.
Proof. exact ex_fair_run. Qed.

(* accept_sound, C02 part: in an accepted trace the bytes returned by Read at one endpoint are a prefix of the
   bytes handed to Write at the other, for both directions ... *)
Theorem C02_trace_exactly_once : forall tr a, accept tr = inl a ->
  forall X, exists rest, written X tr = readb (negb X) tr ++ rest.
Proof. exact accept_exactly_once. Qed.
Print Assumptions C02_trace_exactly_once.

(* ... and equal when the acceptor also accepts the completion claim *)
Theorem C02_trace_complete : forall tr a, accept (tr ++ [EF]) = inl a -> forall X, written X tr = readb (negb X) tr.
Proof. exact accept_complete. Qed.
Print Assumptions C02_trace_complete.

(* the payloads on the wire in sequence-number order are a prefix of the written bytes *)
Theorem C02_trace_stream : forall tr a, accept tr = inl a ->
  forall X, exists asg rest, written X tr = bytes_of asg ++ rest /\
    (forall g, In g (emitted X tr) -> is_seq X (g_ty g) = true -> nth_error asg (N.to_nat (g_seq g)) = Some (cont g)) /\
    (forall i, i < length asg -> emitted_seq X tr i).
Proof. exact accept_stream. Qed.
Print Assumptions C02_trace_stream.

(* refinement: every accepted trace is, per direction D (sender endpoint D, receiver endpoint negb D), a run of
   the transition system: some reachable LTS state has exactly the trace's sequence-number bindings, receiver
   position and read position, contains all its data datagrams and all the acks its receiver emitted.  So the
   LTS theorems of C02 and C13 speak about the sessions the traces were recorded from. *)
Theorem C02_trace_refines_lts : forall tr a, accept tr = inl a -> forall D, exists s,
  reach s /\
  assigned s = e_asg (getE D a) /\ sent_hi s = length (e_asg (getE D a)) /\
  next_recv s = e_nr (getE (negb D) a) /\ rd s = length (readb (negb D) tr) /\
  (forall g, In g (emitted D tr) -> is_seq D (g_ty g) = true -> In (N.to_nat (g_seq g), cont g) (fwd s)) /\
  (forall g, In g (emitted (negb D) tr) -> exists gh, In (N.to_nat (g_unack g), gh) (back s)).
Proof. exact accept_refines. Qed.
Print Assumptions C02_trace_refines_lts.

Example C02_trace_nonvacuous : accepts (ex_trace ++ [EF]) = true.
Proof. exact ex_trace_accepted. Qed.
