(* C04 - tampering with bytes on the wire never changes what the application reads.
   Closed statements over model/TcpStream.v (the TCP receiver of C01) and model/Tamper.v (sender box
   sequence, UDP datagram parser); proofs in proofs/TamperProofs.v.
   open (AEAD of one key), parse_meta / marshal_meta (metadata layout) and the low entropy codec are
   universally quantified.  INT-CTXT is a PREMISE of every theorem that needs it (never an axiom):
     TCP  open_sound      only the sender's boxes open, box k only under nonce n0 + k
     UDP  open_sound_udp  a box opens only if a registered peer sealed that plaintext under that nonce.

   Two parts of the property are FALSE of the code as it is and are refuted on the faithful model
   (C04_tcp_prefix_refuted, C04_udp_same_payload_refuted); beside them the strongest statements that hold. *)
From Coq Require Import List NArith ZArith Bool.
From M Require Import gen.Consts model.TcpStream proofs.TcpStreamProofs model.Tamper proofs.TamperProofs.
Import ListNotations.
Open Scope N_scope.

(* TCP, any received byte stream, any chunking, any key holder: every segment handed on has metadata sealed under
   some nonce n by a key holder and a payload that is empty or sealed under n + 1 (covers foreign connections
   of the same user: their boxes are in [sealed]) *)
Theorem C04_tcp_authentic :
  forall (open : list N -> list N -> option (list N)) (parse_meta : list N -> option minfo)
         (le_decode : leparams -> N -> list N -> option (list N)) (sealed : list N -> list N -> Prop),
    (forall n c p, open n c = Some p -> sealed n p) ->
    forall (st : rstate) (chunk : list N),
      Forall (authentic parse_meta sealed) (fst (feed open parse_meta le_decode st chunk)).
Proof. exact tcp_authentic. Qed.
Print Assumptions C04_tcp_authentic.

(* TCP prefix, partial: for EVERY sent segment list and EVERY byte string that follows the sender's 24 byte nonce
   (bit flips, substitutions, insertions, deletions, truncation, swapped / spliced / foreign segments): what is
   delivered is map deliver of a prefix of the sent segments, i.e. authenticated metadata and payloads equal to
   the sent ones, paddings compared by length only (deliver does not contain padding contents). *)
Theorem C04_tcp_prefix_partial :
  forall (open : list N -> list N -> option (list N)) (parse_meta : list N -> option minfo)
         (le_decode : leparams -> N -> list N -> option (list N)) (marshal_meta : minfo -> list N)
         (le_len : leparams -> N -> N) (segs : list segment) (n0 : list N),
    (forall n c p, open n c = Some p ->
       exists k, n = nonce_add k n0 /\ nth_error (stream_boxes marshal_meta le_len segs) k = Some p) ->
    (forall i k, (i <= length (stream_boxes marshal_meta le_len segs))%nat ->
       (k < length (stream_boxes marshal_meta le_len segs))%nat -> nonce_add i n0 = nonce_add k n0 -> i = k) ->
    (forall s, In s segs -> parse_meta (marshal_meta (fill_meta le_len s)) = Some (fill_meta le_len s) /\
                            (mi_plen (fill_meta le_len s) =? 0) = is_nil (s_payload s)) ->
    length n0 = nonceLen ->
    forall rest, exists j,
      fst (feed open parse_meta le_decode r_init (n0 ++ rest)) = map (deliver le_len) (firstn j segs).
Proof. exact tcp_prefix_header_intact. Qed.
Print Assumptions C04_tcp_prefix_partial.

(* fewer than 24 bytes deliver nothing *)
Theorem C04_tcp_short_nothing :
  forall (open : list N -> list N -> option (list N)) (parse_meta : list N -> option minfo)
         (le_decode : leparams -> N -> list N -> option (list N)) (s' : list N),
    (length s' < nonceLen)%nat -> fst (feed open parse_meta le_decode r_init s') = [].
Proof. exact tcp_short_nothing. Qed.
Print Assumptions C04_tcp_short_nothing.

(* TCP prefix, full statement REFUTED: under the same premises there are a sent stream and a received stream (first
   segment removed, nonce header rewritten to n0 + 1) whose delivery is not a prefix of what was sent *)
Theorem C04_tcp_prefix_refuted :
  exists (open : list N -> list N -> option (list N)) (parse_meta : list N -> option minfo)
         (le_decode : leparams -> N -> list N -> option (list N)) (marshal_meta : minfo -> list N)
         (le_len : leparams -> N -> N) (segs : list segment) (n0 s' : list N),
    (forall n c p, open n c = Some p ->
       exists k, n = nonce_add k n0 /\ nth_error (stream_boxes marshal_meta le_len segs) k = Some p) /\
    (forall i k, (i <= length (stream_boxes marshal_meta le_len segs))%nat ->
       (k < length (stream_boxes marshal_meta le_len segs))%nat -> nonce_add i n0 = nonce_add k n0 -> i = k) /\
    (forall s, In s segs -> parse_meta (marshal_meta (fill_meta le_len s)) = Some (fill_meta le_len s) /\
                            (mi_plen (fill_meta le_len s) =? 0) = is_nil (s_payload s)) /\
    length n0 = nonceLen /\
    ~ exists j, fst (feed open parse_meta le_decode r_init s') = map (deliver le_len) (firstn j segs).
Proof. exact tcp_prefix_refuted. Qed.
Print Assumptions C04_tcp_prefix_refuted.

(* no resynchronisation: after the first failure nothing that follows is delivered, however it is chunked *)
Theorem C04_tcp_no_resync :
  forall (open : list N -> list N -> option (list N)) (parse_meta : list N -> option minfo)
         (le_decode : leparams -> N -> list N -> option (list N)) (a b : list N),
    r_failed (snd (feed open parse_meta le_decode r_init a)) = true ->
    feed open parse_meta le_decode r_init (a ++ b) = feed open parse_meta le_decode r_init a.
Proof. exact tcp_no_resync. Qed.
Print Assumptions C04_tcp_no_resync.

(* non-vacuity and the corollaries on a concrete stream of three segments under the table AEAD: genuine stream
   delivered completely; a replaced tag byte, swapped / duplicated / dropped segments deliver exactly the segments
   before the tamper point and fail for ever; replaced padding bytes change nothing *)
Theorem C04_tcp_examples :
  ex_feed ex_stream = (map ex_deliver ex_segs, mkR [] (Some (nonce_add 5 ex_n0)) false) /\
  ex_feed ex_flip = (map ex_deliver [ex_s1], mkR [] (Some (nonce_add 1 ex_n0)) true) /\
  (fst (ex_feed (firstn 74 ex_stream ++ ex_b3 ++ ex_b2)) = map ex_deliver [ex_s1] /\
   r_failed (snd (ex_feed (firstn 74 ex_stream ++ ex_b3 ++ ex_b2))) = true) /\
  (fst (ex_feed (firstn 145 ex_stream ++ ex_b2 ++ ex_b3)) = map ex_deliver [ex_s1; ex_s2] /\
   r_failed (snd (ex_feed (firstn 145 ex_stream ++ ex_b2 ++ ex_b3))) = true) /\
  (fst (ex_feed (firstn 74 ex_stream ++ ex_b3)) = map ex_deliver [ex_s1] /\
   r_failed (snd (ex_feed (firstn 74 ex_stream ++ ex_b3))) = true) /\
  (ex_padchg <> ex_stream /\ ex_feed ex_padchg = ex_feed ex_stream) /\
  fst (ex_feed ex_skiphead) = map ex_deliver [ex_s2; ex_s3].
Proof.
  exact (conj ex_genuine (conj ex_flip_prefix (conj ex_swap_prefix (conj ex_dup_prefix (conj ex_drop_prefix
          (conj ex_padchg_all ex_skiphead_delivers)))))).
Qed.
Print Assumptions C04_tcp_examples.

(* the table AEAD used by the examples and by the correspondence run satisfies the INT-CTXT premise *)
Theorem C04_table_aead_sound :
  forall (boxes : list (list N)) (n n' c p : list N),
    tab_open (tcp_tab n boxes) n' c = Some p -> exists k, n' = nonce_add k n /\ nth_error boxes k = Some p.
Proof. exact tab_open_tcp_sound. Qed.
Print Assumptions C04_table_aead_sound.

(* padding contents: two segment lists that differ only in the CONTENTS of their paddings are delivered identically
   (and completely).  Premise: the round trip of the un-tampered stream, which C01_feed_serialize proves from AEAD
   and codec correctness for ok = seg_ok (stated as a premise here so that this theorem does not depend on the
   exact form of C01's codec premises). *)
Theorem C04_padding_only_changes_nothing :
  forall (seal : list N -> list N -> list N) (open : list N -> list N -> option (list N))
         (marshal_meta : minfo -> list N) (parse_meta : list N -> option minfo)
         (le_len : leparams -> N -> N) (le_encode : leparams -> bool -> list N -> list N)
         (le_decode : leparams -> N -> list N -> option (list N)) (ok : segment -> Prop),
    (forall segs n, Forall ok segs -> length n = nonceLen ->
       fst (feed open parse_meta le_decode r_init (serialize seal marshal_meta le_len le_encode false n segs)) =
       map (deliver le_len) segs) ->
    forall (segs segs' : list segment) (n : list N),
      Forall ok segs -> Forall ok segs' -> Forall2 same_but_pad segs segs' -> length n = nonceLen ->
      fst (feed open parse_meta le_decode r_init (serialize seal marshal_meta le_len le_encode false n segs')) =
      fst (feed open parse_meta le_decode r_init (serialize seal marshal_meta le_len le_encode false n segs)) /\
      fst (feed open parse_meta le_decode r_init (serialize seal marshal_meta le_len le_encode false n segs)) =
      map (deliver le_len) segs.
Proof. exact tcp_padding_only. Qed.
Print Assumptions C04_padding_only_changes_nothing.

(* low entropy: the body is decoded first, the tag bytes travel unchanged into the box that is opened; a body that
   is accepted by the decoder is THE canonical encoding (for some padding bit) of the ciphertext that is opened -
   so a tampered encoding either fails to decode or decodes to a different ciphertext (which must then pass open),
   or is the encoding of the sealed ciphertext itself.  Canonicity is a premise (proved as C17_canonical). *)
Theorem C04_le_decode_before_open :
  forall (le_encode : leparams -> bool -> list N -> list N)
         (le_decode : leparams -> N -> list N -> option (list N)),
    (forall lp e enc ct, le_decode lp e enc = Some ct -> exists pb, enc = le_encode lp pb ct) ->
    forall (mi : minfo) (body : list N),
      is_le (mi_proto mi) = true ->
      match le_unwrap le_decode mi body with
      | None => le_decode (mi_le mi) (mi_elen mi) (firstn (N.to_nat (mi_plen mi)) body) = None
      | Some box =>
          exists ct pb,
            box = ct ++ skipn (N.to_nat (mi_plen mi)) body /\
            firstn (N.to_nat (mi_plen mi)) body = le_encode (mi_le mi) pb ct
      end.
Proof. exact le_decode_before_open. Qed.
Print Assumptions C04_le_decode_before_open.

(* UDP: the size equations determine the total length of an accepted datagram: truncation and extension of a
   datagram with the same (authenticated) metadata are rejected *)
Theorem C04_udp_size_exact :
  forall (open : list N -> list N -> option (list N)) (parse_meta : list N -> option minfo)
         (le_decode : leparams -> N -> list N -> option (list N)) (d : list N) (mi : minfo) (pl : list N),
    udp_parse open parse_meta le_decode d = Some (mi, pl) -> length d = udp_total mi.
Proof. exact udp_size_exact. Qed.
Print Assumptions C04_udp_size_exact.

(* UDP, partial: ANY datagram is either discarded, or carries the nonce of a datagram a registered peer sealed, is
   handed on with exactly that datagram's metadata, has exactly the length the metadata dictates, and its payload is
   that datagram's payload - OR that datagram's marshalled metadata (both boxes are sealed under the same nonce) *)
Theorem C04_udp_drop_or_same_partial :
  forall (open : list N -> list N -> option (list N)) (parse_meta : list N -> option minfo)
         (le_decode : leparams -> N -> list N -> option (list N)) (marshal_meta : minfo -> list N)
         (le_len : leparams -> N -> N) (sent : list (list N * segment)),
    (forall n c p, open n c = Some p -> exists s, In (n, s) sent /\ In p (seg_boxes marshal_meta le_len s)) ->
    (forall n s1 s2, In (n, s1) sent -> In (n, s2) sent -> s1 = s2) ->
    (forall n s, In (n, s) sent -> parse_meta (marshal_meta (fill_meta le_len s)) = Some (fill_meta le_len s) /\
                                   (mi_plen (fill_meta le_len s) =? 0) = is_nil (s_payload s)) ->
    (forall n s, In (n, s) sent -> is_nil (s_payload s) = false -> parse_meta (s_payload s) = None) ->
    forall d,
      udp_parse open parse_meta le_decode d = None \/
      exists s pl, In (firstn nonceLen d, s) sent /\
        udp_parse open parse_meta le_decode d = Some (fill_meta le_len s, pl) /\
        (pl = s_payload s \/ pl = marshal_meta (fill_meta le_len s)) /\
        length d = udp_total (fill_meta le_len s).
Proof. exact udp_drop_or_same. Qed.
Print Assumptions C04_udp_drop_or_same_partial.

(* UDP, "payload equal to the sealed one" REFUTED: a datagram with a 32 byte payload whose payload box is replaced by
   its own metadata box is accepted with the marshalled metadata as payload *)
Theorem C04_udp_same_payload_refuted :
  exists (open : list N -> list N -> option (list N)) (parse_meta : list N -> option minfo)
         (le_decode : leparams -> N -> list N -> option (list N)) (marshal_meta : minfo -> list N)
         (le_len : leparams -> N -> N) (sent : list (list N * segment)) (d : list N),
    (forall n c p, open n c = Some p -> exists s, In (n, s) sent /\ In p (seg_boxes marshal_meta le_len s)) /\
    (forall n s1 s2, In (n, s1) sent -> In (n, s2) sent -> s1 = s2) /\
    (forall n s, In (n, s) sent -> parse_meta (marshal_meta (fill_meta le_len s)) = Some (fill_meta le_len s) /\
                                   (mi_plen (fill_meta le_len s) =? 0) = is_nil (s_payload s)) /\
    (forall n s, In (n, s) sent -> is_nil (s_payload s) = false -> parse_meta (s_payload s) = None) /\
    exists mi pl, udp_parse open parse_meta le_decode d = Some (mi, pl) /\
      ~ exists s, In (firstn nonceLen d, s) sent /\ pl = s_payload s.
Proof. exact udp_same_payload_refuted. Qed.
Print Assumptions C04_udp_same_payload_refuted.

(* non-vacuity on a concrete datagram: genuine accepted; one byte shorter, one byte longer, a flipped payload byte,
   a flipped nonce byte are discarded; replaced padding bytes change nothing *)
Theorem C04_udp_examples :
  ex_uparse ex_dgram = Some (ex_deliver ex_u) /\
  (ex_uparse (removelast ex_dgram) = None /\ ex_uparse (ex_dgram ++ [0]) = None /\
   ex_uparse (splice 100 1 [0] ex_dgram) = None /\ ex_uparse (splice 3 1 [0] ex_dgram) = None /\
   ex_uparse (splice 72 2 [1; 2] ex_dgram) = ex_uparse ex_dgram).
Proof. exact (conj ex_udp_genuine ex_udp_trunc_ext). Qed.
Print Assumptions C04_udp_examples.

(* reflection: both directions of a session share the key and the session id, so a box sealed by the receiver's OWN
   side opens (UDP: explicit nonce; TCP: behind a rewritten nonce header).  Session.input refuses it by its
   authenticated type: for EVERY received byte stream and EVERY list of received datagrams, whatever reaches the
   application's queue of a session with role [client] was not sealed by that role. *)
Theorem C04_reflection_refused :
  forall (open : list N -> list N -> option (list N)) (parse_meta : list N -> option minfo)
         (le_decode : leparams -> N -> list N -> option (list N)) (client : bool) (sid : N),
    (forall s' : list N,
       Forall (fun r : rseg => own_side client (mi_proto (fst r)) = false)
              (session_in client sid (fst (feed open parse_meta le_decode r_init s')))) /\
    (forall ds : list (list N),
       Forall (fun r : rseg => own_side client (mi_proto (fst r)) = false)
              (session_in client sid (udp_recv_all open parse_meta le_decode ds))).
Proof. exact reflection_refused. Qed.
Print Assumptions C04_reflection_refused.

(* non-vacuity: with the shared key in the table the client's receiver OPENS its own second segment behind its own
   nonce + 1, and the session hands nothing to the application; the genuine server stream is handed on completely *)
Theorem C04_reflection_example :
  fst (feed ex_open2 (meta_parse_c ex_now) le_decode_id r_init ex_reflect) = [ex_deliver ex_c2] /\
  session_in true 77 (fst (feed ex_open2 (meta_parse_c ex_now) le_decode_id r_init ex_reflect)) = [] /\
  session_in true 77 (fst (feed ex_open2 (meta_parse_c ex_now) le_decode_id r_init ex_stream)) = map ex_deliver ex_segs.
Proof. exact ex_reflect_opens_but_refused. Qed.
Print Assumptions C04_reflection_example.

(* UDP release: for every sender payload list, every order of arrival of genuine sequenced segments (any of them
   missing, duplicated, late) and every position of the close: the application's queue is exactly the first
   u_next payloads - nothing behind a missing sequence number is ever released, also not by a close *)
Theorem C04_udp_no_release_across_gap :
  forall (sent : list (list N)) (evs : list uevent),
    Forall (genuine sent) evs -> u_q (u_run evs) = firstn (u_next (u_run evs)) sent.
Proof. exact udp_no_release_across_gap. Qed.
Print Assumptions C04_udp_no_release_across_gap.

Theorem C04_udp_gap_example :
  u_q (u_run [UArrive 0 [1]; UArrive 2 [3]; UArrive 3 [4]; UClose; UArrive 1 [2]]) = [[1]] /\
  u_q (u_run [UArrive 0 [1]; UArrive 2 [3]; UArrive 3 [4]; UArrive 1 [2]; UClose]) = [[1]; [2]; [3]; [4]].
Proof. exact ex_gap. Qed.
Print Assumptions C04_udp_gap_example.

(* "a datagram that the session refuses leaves the session as if the datagram had been lost" is FALSE of the code: the
   receiver's own data datagram (it opens: shared key, explicit nonce; it carries the session id) is refused by
   Session.input, and that refusal ends the session - the genuine datagrams that follow are no longer handed on.
   Witness: server datagram, reflected client datagram, server datagram: only the first reaches the application. *)
Theorem C04_udp_reflection_closes_session_refuted :
  exists (op : list N -> list N -> option (list N)) (pm : list N -> option minfo)
         (ld : leparams -> N -> list N -> option (list N)) (client : bool) (sid : N)
         (ds1 : list (list N)) (d : list N) (ds2 : list (list N)) (r : rseg),
    udp_parse op pm ld d = Some r /\ own_side client (mi_proto (fst r)) = true /\ mi_sid (fst r) = sid /\
    session_in client sid (udp_recv_all op pm ld (ds1 ++ d :: ds2)) <>
    session_in client sid (udp_recv_all op pm ld (ds1 ++ ds2)).
Proof. exact udp_reflection_closes_session_refuted. Qed.
Print Assumptions C04_udp_reflection_closes_session_refuted.

(* UDP, replayed copies: for every sender payload list and every history of authentic datagrams handed to a session -
   data, open request / response (sequence number 0, through recvBuf like data), close request / response, acks - a
   second copy of ANY of them inserted at ANY later point leaves nextRecv, the bytes released to the application and the
   open / closed state exactly as without the copy: a copy never advances nextRecv past an undelivered sequence number *)
Theorem C04_udp_replayed_copy_is_idempotent :
  forall (sent : list (list N)) (evs1 : list uevent) (e : uevent) (evs2 evs3 : list uevent),
    Forall (genuine sent) (evs1 ++ e :: evs2 ++ evs3) ->
    let a := u_run (evs1 ++ e :: evs2 ++ e :: evs3) in
    let b := u_run (evs1 ++ e :: evs2 ++ evs3) in
    u_next a = u_next b /\ u_q a = u_q b /\ u_closed a = u_closed b.
Proof. exact udp_replayed_copy_is_idempotent. Qed.
Print Assumptions C04_udp_replayed_copy_is_idempotent.

Theorem C04_udp_replay_example :
  u_next (u_run [UArrive 0 []; UArrive 1 [5]; UArrive 2 [6]; UArrive 0 []; UArrive 3 [7]]) = 4%nat /\
  u_q (u_run [UArrive 0 []; UArrive 1 [5]; UArrive 2 [6]; UArrive 0 []; UArrive 3 [7]]) = [[]; [5]; [6]; [7]].
Proof. exact ex_replay. Qed.
Print Assumptions C04_udp_replay_example.

(* TCP, start at a segment boundary: under the premises of C04_tcp_prefix_partial, a receiver that starts on the sender's
   nonce advanced over the boxes of the leading segments [pre] (the header rewrite of the finding; or a whole stream,
   pre = []) delivers a contiguous run of the sender's segments from that boundary - this is exactly how far the
   refuted prefix statement fails *)
Theorem C04_tcp_infix_from_boundary :
  forall (open : list N -> list N -> option (list N)) (parse_meta : list N -> option minfo)
         (le_decode : leparams -> N -> list N -> option (list N)) (marshal_meta : minfo -> list N)
         (le_len : leparams -> N -> N) (segs : list segment) (n0 : list N),
    (forall n c p, open n c = Some p ->
       exists k, n = nonce_add k n0 /\ nth_error (stream_boxes marshal_meta le_len segs) k = Some p) ->
    (forall i k, (i <= length (stream_boxes marshal_meta le_len segs))%nat ->
       (k < length (stream_boxes marshal_meta le_len segs))%nat -> nonce_add i n0 = nonce_add k n0 -> i = k) ->
    (forall s, In s segs -> parse_meta (marshal_meta (fill_meta le_len s)) = Some (fill_meta le_len s) /\
                            (mi_plen (fill_meta le_len s) =? 0) = is_nil (s_payload s)) ->
    length n0 = nonceLen ->
    forall pre l rest, segs = pre ++ l ->
      exists m, fst (feed open parse_meta le_decode r_init
                       (nonce_add (length (stream_boxes marshal_meta le_len pre)) n0 ++ rest)) =
                map (deliver le_len) (firstn m l).
Proof. exact tcp_infix_from_boundary. Qed.
Print Assumptions C04_tcp_infix_from_boundary.

(* TCP, cross-connection splice: the downstream bytes of ANOTHER connection (same user, same key: every box opens) fed to
   a receiver - the whole stream or from any segment boundary, followed by anything - hand NOTHING to a session whose id
   is not among the session ids of that other connection.  The premise "live session ids of one user are distinct" is
   what the code relies on (ids are drawn at random per dial); the driver checks it on muxes created in the same second. *)
Theorem C04_tcp_cross_connection_splice_refused :
  forall (open : list N -> list N -> option (list N)) (parse_meta : list N -> option minfo)
         (le_decode : leparams -> N -> list N -> option (list N)) (marshal_meta : minfo -> list N)
         (le_len : leparams -> N -> N) (segs : list segment) (n0 : list N),
    (forall n c p, open n c = Some p ->
       exists k, n = nonce_add k n0 /\ nth_error (stream_boxes marshal_meta le_len segs) k = Some p) ->
    (forall i k, (i <= length (stream_boxes marshal_meta le_len segs))%nat ->
       (k < length (stream_boxes marshal_meta le_len segs))%nat -> nonce_add i n0 = nonce_add k n0 -> i = k) ->
    (forall s, In s segs -> parse_meta (marshal_meta (fill_meta le_len s)) = Some (fill_meta le_len s) /\
                            (mi_plen (fill_meta le_len s) =? 0) = is_nil (s_payload s)) ->
    length n0 = nonceLen ->
    forall (client : bool) (sidB : N),
      Forall (fun s => mi_sid (s_meta s) <> sidB) segs ->
      forall pre l rest, segs = pre ++ l ->
        session_in client sidB (fst (feed open parse_meta le_decode r_init
                                       (nonce_add (length (stream_boxes marshal_meta le_len pre)) n0 ++ rest))) = [].
Proof. exact tcp_cross_connection_splice_refused. Qed.
Print Assumptions C04_tcp_cross_connection_splice_refused.
