(* C01 - TCP transport: every byte delivered exactly once, in order, to the right session.
   Closed statements over model/TcpStream.v; proofs in proofs/TcpStreamProofs.v.
   seal/open (AEAD of one direction), marshal_meta/parse_meta (metadata byte layout) and
   le_len/le_encode/le_decode (low entropy body codec) are universally quantified; what is assumed
   of them is written as premises of each theorem. *)
From Coq Require Import List NArith ZArith Bool.
From M Require Import gen.Consts model.TcpStream model.TcpStreamWire proofs.TcpStreamProofs proofs.TcpStreamInst proofs.TcpStreamExamples proofs.TcpStreamBackpressure proofs.TcpStreamWriteValue.
Import ListNotations.
Open Scope N_scope.

(* chunking independence: feeding a ++ b = feeding a, then b - for ALL byte strings and receiver states,
   hence for every way the network splits or coalesces the stream *)
Theorem C01_feed_app :
  forall (open : list N -> list N -> option (list N)) (parse_meta : list N -> option minfo)
         (le_decode : leparams -> N -> list N -> option (list N)) (st : rstate) (a b : list N),
    feed open parse_meta le_decode st (a ++ b) =
    (let (l1, st1) := feed open parse_meta le_decode st a in
     let (l2, st2) := feed open parse_meta le_decode st1 b in (l1 ++ l2, st2)).
Proof. exact feed_app. Qed.
Print Assumptions C01_feed_app.

(* round trip: any list of valid segments (any paddings <= 255 bytes with any contents, any low entropy
   parameters accepted by le_ok, any metadata accepted by meta_ok) is delivered exactly, in order, and
   the receiver ends with an empty buffer and no error *)
Theorem C01_feed_serialize :
  forall (seal : list N -> list N -> list N) (open : list N -> list N -> option (list N))
         (marshal_meta : minfo -> list N) (parse_meta : list N -> option minfo)
         (le_len : leparams -> N -> N) (le_encode : leparams -> bool -> list N -> list N)
         (le_decode : leparams -> N -> list N -> option (list N))
         (meta_ok : minfo -> bool) (le_ok : leparams -> N -> bool),
    (forall n p, length (seal n p) = (length p + tagLen)%nat) ->
    (forall n p, open n (seal n p) = Some p) ->
    (forall m, meta_ok m = true -> length (marshal_meta m) = metaLen) ->
    (forall m, meta_ok m = true -> parse_meta (marshal_meta m) = Some m) ->
    (forall lp pb n p, le_ok lp (lenN p) = true ->
       length (le_encode lp pb (firstn (length p) (seal n p))) = N.to_nat (le_len lp (lenN p))) ->
    (forall lp pb n p, le_ok lp (lenN p) = true ->
       le_decode lp (lenN p) (le_encode lp pb (firstn (length p) (seal n p))) = Some (firstn (length p) (seal n p))) ->
    forall (segs : list segment) (n : list N),
      Forall (seg_ok le_len meta_ok le_ok) segs -> length n = nonceLen ->
      feed open parse_meta le_decode r_init (serialize seal marshal_meta le_len le_encode false n segs) =
      (map (deliver le_len) segs,
       mkR [] (ser_next seal marshal_meta le_len le_encode false n segs) false).
Proof. exact feed_serialize. Qed.
Print Assumptions C01_feed_serialize.

(* Session.Write: the payloads of the planned segments concatenate to the written bytes; sequence numbers
   are consecutive from 0; every planned segment is valid (session payload <= 1024 with fragment 0, data
   payload non-empty and <= maxPDU); fragment numbers count down to 0 *)
Theorem C01_plan_concat :
  forall (client : bool) (evs : list wevent), Forall wevent_ok evs ->
    let l := plan_events client w_init evs in
    concat (map p_payload l) = written evs /\ seqs_from 0 l /\ Forall pseg_ok l /\ frag_chain l.
Proof. exact plan_concat. Qed.
Print Assumptions C01_plan_concat.

(* the property: for every family of sessions on one connection (distinct ids, each with any sequence of
   writes / control segments), every realisation of their planned segments on the wire (any paddings,
   masks, timestamps, windows), every interleaving of whole segments, every nonce and every chunking of
   the byte stream: the receiver does not fail, and for every session the receive queue holds exactly the
   written bytes; every sequence of Read sizes returns exactly the first min(sum, length) written bytes
   (so: a prefix, everything once enough was asked for, and nothing that depends on any other session);
   and for every schedule of arrivals and reads what was read so far is a prefix of the written bytes *)
Theorem C01_tcp_integrity :
  forall (seal : list N -> list N -> list N) (open : list N -> list N -> option (list N))
         (marshal_meta : minfo -> list N) (parse_meta : list N -> option minfo)
         (le_len : leparams -> N -> N) (le_encode : leparams -> bool -> list N -> list N)
         (le_decode : leparams -> N -> list N -> option (list N))
         (meta_ok : minfo -> bool) (le_ok : leparams -> N -> bool),
    (forall n p, length (seal n p) = (length p + tagLen)%nat) ->
    (forall n p, open n (seal n p) = Some p) ->
    (forall m, meta_ok m = true -> length (marshal_meta m) = metaLen) ->
    (forall m, meta_ok m = true -> parse_meta (marshal_meta m) = Some m) ->
    (forall lp pb n p, le_ok lp (lenN p) = true ->
       length (le_encode lp pb (firstn (length p) (seal n p))) = N.to_nat (le_len lp (lenN p))) ->
    (forall lp pb n p, le_ok lp (lenN p) = true ->
       le_decode lp (lenN p) (le_encode lp pb (firstn (length p) (seal n p))) = Some (firstn (length p) (seal n p))) ->
    forall (client : bool) (ss : list sess) (wire : list segment) (n0 : list N) (chunks : list (list N)),
      Forall (sess_ok client) ss -> NoDup (map sess_id ss) ->
      interleave (map snd ss) wire -> Forall (seg_ok le_len meta_ok le_ok) wire -> length n0 = nonceLen ->
      concat chunks = serialize seal marshal_meta le_len le_encode false n0 wire ->
      r_failed (snd (feed_all open parse_meta le_decode r_init chunks)) = false /\
      forall t, In t ss ->
        let q := map snd (recv_queue (demux (sess_id t) (fst (feed_all open parse_meta le_decode r_init chunks)))) in
        let w := written (snd (fst t)) in
        concat q = w /\
        (forall ks, concat (read_all ks q) = firstn (sum_nat ks) w) /\
        (forall ks, (length w <= sum_nat ks)%nat -> concat (read_all ks q) = w) /\
        (forall sched more, arrivals_of sched ++ more = q ->
           exists rest, concat (run_reads (mkRd [] []) sched) ++ rest = w).
Proof. exact tcp_integrity. Qed.
Print Assumptions C01_tcp_integrity.

(* used by C04: under INT-CTXT with the nonce bound in (a box opens under a nonce only if the sender sealed
   that plaintext under that nonce; nonces of one direction never repeat), for ANY received byte stream that
   still begins with the sender's nonce, the delivered segments are a prefix of the sent segments, and after
   the first failure nothing is ever delivered.  (When the adversary also rewrites the 24 nonce bytes, boxes
   still open only under the nonce they were sealed with: the delivered segments are then a run of the sent
   segments that starts at a later segment boundary - dropping the head of a stream is not detected by the
   framing layer; see the report.) *)
Theorem C01_tcp_tamper_prefix :
  forall (open : list N -> list N -> option (list N)) (marshal_meta : minfo -> list N)
         (parse_meta : list N -> option minfo) (le_len : leparams -> N -> N)
         (le_decode : leparams -> N -> list N -> option (list N))
         (meta_ok : minfo -> bool) (le_ok : leparams -> N -> bool),
    (forall m, meta_ok m = true -> parse_meta (marshal_meta m) = Some m) ->
    forall (n0 : list N) (segs : list segment),
      (forall n c p, open n c = Some p -> In (n, p) (sealed marshal_meta le_len n0 segs)) ->
      NoDup (map fst (sealed marshal_meta le_len n0 segs) ++ [nonce_after n0 segs]) ->
      Forall (seg_ok le_len meta_ok le_ok) segs ->
      forall x x1, take nonceLen x = Some (n0, x1) ->
        (exists k, fst (feed open parse_meta le_decode r_init x) = firstn k (map (deliver le_len) segs)) /\
        (forall y, r_failed (snd (feed open parse_meta le_decode r_init x)) = true ->
                   fst (feed open parse_meta le_decode (snd (feed open parse_meta le_decode r_init x)) y) = []).
Proof. exact tamper_prefix. Qed.
Print Assumptions C01_tcp_tamper_prefix.

(* ---------------------------------------------------------------------------------------------------
   The same statements with the codecs made concrete (model/TcpStreamWire.v): metadata marshal/unmarshal of
   model/Wire.v (round trips: C09), low entropy codec of model/LowEntropy.v (round trip: C17).  The only
   premises left are the AEAD ones: seal adds a 16 byte tag, open inverts seal, ciphertexts are byte strings.
   Conditions of the concrete codecs are explicit in seg_ok (meta_ok_w now, le_ok_w): field values in the
   range of their wire fields and 0 where the layout has no field; every segment stamped within one minute
   of the receiver's clock [now], which is constant while the stream is parsed; low entropy segments with
   parameters accepted by validateLowEntropyCodecParams, a 32 bit mask and 1..8191 chunks of payload. *)
Theorem C01_feed_serialize_concrete :
  forall (seal : list N -> list N -> list N) (open : list N -> list N -> option (list N)),
    (forall n p, length (seal n p) = (length p + tagLen)%nat) ->
    (forall n p, open n (seal n p) = Some p) ->
    (forall n p, Forall (fun b => b < 256) (seal n p)) ->
    forall (now : N) (segs : list segment) (n : list N),
      Forall (seg_ok le_len_w (meta_ok_w now) le_ok_w) segs -> length n = nonceLen ->
      feed open (parse_w now) le_decode_w r_init (serialize seal marshal_w le_len_w le_encode_w false n segs) =
      (map (deliver le_len_w) segs, mkR [] (ser_next seal marshal_w le_len_w le_encode_w false n segs) false).
Proof. exact feed_serialize_concrete. Qed.
Print Assumptions C01_feed_serialize_concrete.

Theorem C01_tcp_integrity_concrete :
  forall (seal : list N -> list N -> list N) (open : list N -> list N -> option (list N)),
    (forall n p, length (seal n p) = (length p + tagLen)%nat) ->
    (forall n p, open n (seal n p) = Some p) ->
    (forall n p, Forall (fun b => b < 256) (seal n p)) ->
    forall (now : N) (client : bool) (ss : list sess) (wire : list segment) (n0 : list N) (chunks : list (list N)),
      Forall (sess_ok client) ss -> NoDup (map sess_id ss) ->
      interleave (map snd ss) wire -> Forall (seg_ok le_len_w (meta_ok_w now) le_ok_w) wire -> length n0 = nonceLen ->
      concat chunks = serialize seal marshal_w le_len_w le_encode_w false n0 wire ->
      r_failed (snd (feed_all open (parse_w now) le_decode_w r_init chunks)) = false /\
      forall t, In t ss ->
        let q := map snd (recv_queue (demux (sess_id t) (fst (feed_all open (parse_w now) le_decode_w r_init chunks)))) in
        let w := written (snd (fst t)) in
        concat q = w /\
        (forall ks, concat (read_all ks q) = firstn (sum_nat ks) w) /\
        (forall ks, (length w <= sum_nat ks)%nat -> concat (read_all ks q) = w) /\
        (forall sched more, arrivals_of sched ++ more = q ->
           exists rest, concat (run_reads (mkRd [] []) sched) ++ rest = w).
Proof. exact tcp_integrity_concrete. Qed.
Print Assumptions C01_tcp_integrity_concrete.

(* tamper lemma with the concrete metadata layout; premises: INT-CTXT relative to the boxes the sender sealed
   (open_sound in its strong form: only sealed boxes open, under their own nonce) and freshness of the nonces *)
Theorem C01_tcp_tamper_prefix_concrete :
  forall (open : list N -> list N -> option (list N)) (now : N) (n0 : list N) (segs : list segment),
    (forall n c p, open n c = Some p -> In (n, p) (sealed marshal_w le_len_w n0 segs)) ->
    NoDup (map fst (sealed marshal_w le_len_w n0 segs) ++ [nonce_after n0 segs]) ->
    Forall (seg_ok le_len_w (meta_ok_w now) le_ok_w) segs ->
    forall x x1, take nonceLen x = Some (n0, x1) ->
      (exists k, fst (feed open (parse_w now) le_decode_w r_init x) = firstn k (map (deliver le_len_w) segs)) /\
      (forall y, r_failed (snd (feed open (parse_w now) le_decode_w r_init x)) = true ->
                 fst (feed open (parse_w now) le_decode_w (snd (feed open (parse_w now) le_decode_w r_init x)) y) = []).
Proof. exact tamper_prefix_concrete. Qed.
Print Assumptions C01_tcp_tamper_prefix_concrete.

(* receiver-side hand-off (deliverSegmentToSession -> recvChan -> input loop -> bounded recvQueue): the input
   loop WAITS for room in recvQueue (waitForRecvQueueSpace gives up only when the session is closed).  For every
   capacity and every interleaving of parsing (HParsed), input-loop attempts (HDeliver) and application reads
   (HRead) on an open session: the bytes read so far followed by everything still held (unreadBuf, recvQueue,
   pending) are exactly what was held before followed by what was parsed since, in order - nothing parsed is
   dropped, duplicated or reordered - and recvQueue never exceeds its capacity. *)
Theorem C01_backpressure_lossless : forall (cap : nat) (evs : list hev) (st : hst),
  h_closed st = false -> no_close evs = true ->
  let (outs, st') := run_h cap st evs in
  h_closed st' = false /\
  concat outs ++ h_flat st' = h_flat st ++ concat (parsed_of evs) /\
  (length (rd_queue (h_rd st')) <= Nat.max cap (length (rd_queue (h_rd st))))%nat.
Proof. exact backpressure_lossless. Qed.
Print Assumptions C01_backpressure_lossless.

(* Write has value semantics.  plan_events / serialize take the written bytes as values; the code takes them from
   a caller-owned mutable buffer and returns from Write before the queued segment is encrypted.  Because the
   enqueue copies (copy = true), for ANY sequence of steps (the application refills its buffer | Write | the output
   goroutine encrypts what is queued) what is sent after the final flush is exactly the list of buffer contents at
   the moments of the Write calls, i.e. the planner is handed b_1, ..., b_n and the stream carries b_1 ++ ... ++ b_n
   (by C01_plan_concat / C01_tcp_integrity), whatever the application does to its buffer after Write returned. *)
Theorem C01_write_captures_value : forall steps : list astep,
  let st := a_run true a_init (steps ++ [AFlush]) in
  a_queue st = [] /\ a_sent st = values_written [] steps /\
  forall mode, written (map (WWrite mode) (a_sent st)) = concat (values_written [] steps).
Proof. exact write_captures_value. Qed.
Print Assumptions C01_write_captures_value.

(* the aliasing variant (the queued segment keeps a reference to the caller's buffer, copy = false) is refuted by
   two writes from one reused buffer: the stream carries b_2 b_2 instead of b_1 b_2 *)
Theorem C01_write_alias_refuted :
  values_written [] alias_witness = [[1; 1; 1]; [2; 2; 2]] /\
  a_sent (a_run false a_init (alias_witness ++ [AFlush])) = [[2; 2; 2]; [2; 2; 2]] /\
  a_sent (a_run true a_init (alias_witness ++ [AFlush])) = [[1; 1; 1]; [2; 2; 2]] /\
  exists steps, a_sent (a_run false a_init (steps ++ [AFlush])) <> values_written [] steps.
Proof. exact write_alias_refuted. Qed.
Print Assumptions C01_write_alias_refuted.
