(* C14 — no datagram exceeds the configured MTU; no payload exceeds its length field.
   Statements only; each is closed by [exact] of a lemma of proofs/SizesProofs.v.
   mtu_ok = the MTU range both config validators accept; mode_ok = OFF/32/40/48/56;
   transport_ok = stream or packet.  Padding draws are oracle inputs constrained only by the
   maxima the code computes (draws_ok). *)
From Coq Require Import ZArith List.
From M Require Import gen.Consts model.Sizes proofs.SizesProofs proofs.SizesCrossProofs.
From M Require model.TcpStream model.Wire model.UdpProto.
From M Require Import base.MiniGo gen.Translated proofs.TranslatedProtocolProofs.
Import ListNotations.
Open Scope Z_scope.

(* every datagram of a packet-transport session — any segment queued by any Write (first transmission or
   retransmission: same segment, fresh draws), open/close request/response, ack — is at most mtu bytes long *)
Theorem C14_mtu : forall mtu mode is_client first n cfg_mid cfg_end s p1 p2,
  mtu_ok mtu -> mode_ok mode -> 0 <= n ->
  emitted is_client first mtu C14_TransportPacket mode n s ->
  draws_ok mtu C14_TransportPacket cfg_mid cfg_end s p1 p2 ->
  dgram_len s p1 p2 <= mtu.
Proof. exact c14_mtu. Qed.
Print Assumptions C14_mtu.

(* the hypothesis mtu_ok is needed: the piggybacked first write is not sized by the MTU *)
Theorem C14_mtu_needs_validated_range :
  exists mtu s, mtu = 1100 /\ emitted true true mtu C14_TransportPacket C14_ModeOff 1024 s /\
    draws_ok mtu C14_TransportPacket None None s 0 0 /\ dgram_len s 0 0 > mtu.
Proof. exact c14_mtu_needs_range. Qed.
Print Assumptions C14_mtu_needs_validated_range.

(* length fields hold true lengths (no uint16/uint8 wrap), fragments <= maxPDU and <= the fragment size,
   session payload <= 1024 and only with low entropy off, paddings <= 255 *)
Theorem C14_fields : forall is_client first mtu t mode n s,
  mode_ok mode -> transport_ok t -> (t = C14_TransportPacket -> mtu_ok mtu) -> 0 <= n ->
  In s (fst (fst (write is_client first mtu t mode n))) ->
  0 <= s_plen s <= C14_MaxUint16 /\ 0 <= s_ext s <= C14_MaxUint16 /\
  0 <= s_body s <= C14_maxPDU /\
  (exists fs, max_fragment mtu t mode = Some fs /\ (is_session (s_kind s) = false -> 0 < s_body s <= fs)) /\
  (is_session (s_kind s) = true -> s_kind s = KOpenReq /\ s_body s <= C14_MaxSessionOpenPayload /\ s_plen s = s_body s /\
                                   (0 < s_body s -> mode = C14_ModeOff)) /\
  (s_kind s = KData -> mode = C14_ModeOff /\ s_plen s = s_body s) /\
  (s_kind s = KDataLE -> mode <> C14_ModeOff /\ s_ext s = s_body s /\ le_encoded_len (s_body s) mode = Some (s_plen s) /\ s_body s <= s_plen s) /\
  s_kind s <> KAck /\
  0 <= s_frag s <= C14_MaxUint8 /\
  (forall c1 c2 p1 p2, draws_ok mtu t c1 c2 s p1 p2 -> 0 <= p1 <= C14_MaxUint8 /\ 0 <= p2 <= C14_MaxUint8).
Proof. exact c14_fields. Qed.
Print Assumptions C14_fields.

(* one writeChunk: never fails, at most 256 fragments (fewer than the queue capacity), numbered n-1 .. 0, covering len *)
Theorem C14_fragment_numbers : forall mtu t mode len,
  mode_ok mode -> transport_ok t -> (t = C14_TransportPacket -> mtu_ok mtu) -> 0 < len <= C14_maxPDU ->
  exists segs, write_chunk mtu t mode len = (segs, Ok) /\
    map s_frag segs = countdown (length segs) /\ 1 <= Z.of_nat (length segs) <= C14_MaxUint8 + 1 /\
    Z.of_nat (length segs) < C14_segmentTreeCapacity /\ sum_body segs = len.
Proof. exact c14_fragment_numbers. Qed.
Print Assumptions C14_fragment_numbers.

(* Write never errs or divides by zero in range, reports n, and the bodies add up to n *)
Theorem C14_write_total : forall is_client first mtu t mode n,
  mode_ok mode -> transport_ok t -> (t = C14_TransportPacket -> mtu_ok mtu) -> 0 <= n ->
  exists segs, write is_client first mtu t mode n = (segs, n, Ok) /\ sum_body segs = n.
Proof. exact c14_write_total. Qed.
Print Assumptions C14_write_total.

(* the fragments of a write concatenate to exactly the written bytes; shapes are those of [write] *)
Theorem plan_concat : forall (A : Type) is_client first mtu t mode (b : list A),
  mode_ok mode -> transport_ok t -> (t = C14_TransportPacket -> mtu_ok mtu) ->
  exists segs, plan_write is_client first mtu t mode b = (segs, Z.of_nat (length b), Ok) /\
    concat (map snd segs) = b /\
    map fst segs = fst (fst (write is_client first mtu t mode (Z.of_nat (length b)))) /\
    lens_ok segs.
Proof. exact (@plan_concat_lemma). Qed.
Print Assumptions plan_concat.

(* the documented numeric limits on a stream: 32768-byte fragments, 32764 in MODE_32 (encoded 65528 <= 65535) *)
Theorem C14_stream_limits : forall mtu,
  max_fragment mtu C14_TransportStream C14_ModeOff = Some 32768 /\
  max_fragment mtu C14_TransportStream C14_Mode32 = Some 32764 /\
  max_fragment mtu C14_TransportStream C14_Mode40 = Some 32768 /\
  max_fragment mtu C14_TransportStream C14_Mode48 = Some 32768 /\
  max_fragment mtu C14_TransportStream C14_Mode56 = Some 32768 /\
  le_encoded_len 32764 C14_Mode32 = Some 65528 /\ le_encoded_len 32768 C14_Mode32 = None /\
  le_encoded_len 32768 C14_Mode40 = Some 52432 /\ le_encoded_len 32768 C14_Mode48 = Some 43696 /\
  le_encoded_len 32768 C14_Mode56 = Some 37456.
Proof. exact c14_stream_limits. Qed.
Print Assumptions C14_stream_limits.

(* padding helpers: always within a byte; both paddings together never exceed the room the payload leaves *)
Theorem C14_padding_budget : forall mtu frag c1 c2 p1 p2,
  0 <= p1 <= max_padding_tp mtu C14_TransportPacket frag 0 c1 ->
  0 <= p2 <= max_padding_tp mtu C14_TransportPacket frag p1 c2 ->
  p1 + p2 <= Z.max 0 (mtu - frag - C14_packetOverhead).
Proof. exact packet_padding_budget. Qed.
Print Assumptions C14_padding_budget.

(* the SOURCE of maxPaddingSize / maxFragmentSizeInternal as it is now (gen/Translated.v: translated from pkg/protocol by
   harness/cmd/go2coq on every run, semantics of base/MiniGo.v with Go's int wrapping at 2^63) equals the model's
   functions wherever no 64-bit wrap can occur (int_small z: -2^61 < z < 2^61; MTUs are 1280..1500, sizes < 2^16) *)
Theorem C14_source_max_padding_eq_model : forall mtu t frag existing,
  int_small mtu -> int_small frag -> int_small existing ->
  xl_protocol_maxPaddingSize mtu t frag existing = max_padding mtu t frag existing.
Proof. exact xl_maxPaddingSize_eq_model. Qed.
Print Assumptions C14_source_max_padding_eq_model.

Theorem C14_source_max_fragment_eq_model : forall mtu t, int_small mtu ->
  xl_protocol_maxFragmentSizeInternal mtu t = max_fragment_internal mtu t.
Proof. exact xl_maxFragmentSizeInternal_eq_model. Qed.
Print Assumptions C14_source_max_fragment_eq_model.

(* likewise maxFragmentSize, lowEntropyEncodedPayloadLen and the mode table buildLowEntropyParams: an error result of the
   source is [true] in the second component of the translation and [None] in the model (of_opt); lowEntropyEncodedPayloadLen
   divides by the table's value, so its translation is partial (None = run-time panic) and the theorem shows it never is *)
Theorem C14_source_max_fragment_size_eq_model : forall mtu t mode, int_small mtu ->
  xl_protocol_maxFragmentSize mtu t mode = of_opt (max_fragment mtu t mode).
Proof. exact xl_maxFragmentSize_eq_model. Qed.
Print Assumptions C14_source_max_fragment_size_eq_model.

Theorem C14_source_le_encoded_len_eq_model : forall n mode, int_small n ->
  xl_protocol_lowEntropyEncodedPayloadLen n mode = Some (of_opt (le_encoded_len n mode)).
Proof. exact xl_lowEntropyEncodedPayloadLen_eq_model. Qed.
Print Assumptions C14_source_le_encoded_len_eq_model.

Theorem C14_source_mode_table : forall mode,
  match src_bytes mode with
  | Some sb => exists w, xl_protocol_buildLowEntropyParams mode = ((sb, w), false)
  | None => xl_protocol_buildLowEntropyParams mode = ((0, 0), true)
  end.
Proof. exact xl_buildLowEntropyParams_eq_model. Qed.
Print Assumptions C14_source_mode_table.

(* C14_mtu with the padding maxima computed by the translated source (no traffic pattern: configured maxima only lower
   them), and each padding within its length byte *)
Theorem C14_source_mtu_bound : forall mtu mode is_client first n s p1 p2,
  mtu_ok mtu -> mode_ok mode -> 0 <= n ->
  emitted is_client first mtu C14_TransportPacket mode n s ->
  0 <= p1 <= (if is_session (s_kind s) then 0 else xl_protocol_maxPaddingSize mtu C14_TransportPacket (s_plen s) 0) ->
  0 <= p2 <= xl_protocol_maxPaddingSize mtu C14_TransportPacket (s_plen s) (if is_session (s_kind s) then 0 else p1) ->
  dgram_len s p1 p2 <= mtu /\ p1 <= C14_MaxUint8 /\ p2 <= C14_MaxUint8.
Proof. exact xl_mtu_bound. Qed.
Print Assumptions C14_source_mtu_bound.

(* the same as pure arithmetic over the two translated functions, no model function in the statement *)
Theorem C14_source_padding_budget : forall mtu frag p1 p2,
  mtu_ok mtu ->
  0 <= frag <= xl_protocol_maxFragmentSizeInternal mtu C14_TransportPacket ->
  0 <= p1 <= xl_protocol_maxPaddingSize mtu C14_TransportPacket frag 0 ->
  0 <= p2 <= xl_protocol_maxPaddingSize mtu C14_TransportPacket frag p1 ->
  C14_packetOverhead + frag + p1 + p2 <= mtu /\ p1 <= C14_MaxUint8 /\ p2 <= C14_MaxUint8.
Proof. exact xl_padding_budget. Qed.
Print Assumptions C14_source_padding_budget.

(* side conditions on the constants regenerated from /repo *)
Theorem C14_consts_layout :
  C14_packetOverhead = C14_NonceSize + C14_MetadataLength + 2 * C14_TagOverhead /\
  C14_packetNonHeaderPosition = header_len /\
  C14_streamOverhead = C14_MetadataLength + 2 * C14_TagOverhead.
Proof. exact consts_layout. Qed.
Print Assumptions C14_consts_layout.

Theorem C14_consts_mtu_range :
  C14_ServerMinMTU = C14_ClientMinMTU /\ C14_ServerMaxMTU = C14_ClientMaxMTU /\
  C14_ServerMTURangeContiguous = 1 /\ C14_ClientMTURangeContiguous = 1 /\
  C14_ServerMinMTU <= C14_DefaultMTU <= C14_ServerMaxMTU /\
  C14_packetOverhead + C14_MaxSessionOpenPayload <= C14_ServerMinMTU.
Proof. exact consts_mtu_range. Qed.
Print Assumptions C14_consts_mtu_range.

Theorem C14_consts_modes :
  C14_ExtraLEModes = 0 /\ C14_MaxConfiguredMiddlePadding <= C14_MaxUint8 /\ C14_MaxConfiguredEndPadding <= C14_MaxUint8 /\
  C14_StreamPaddingCap <= C14_MaxUint8 /\ C14_PacketPaddingCap <= C14_MaxUint8.
Proof. exact consts_modes. Qed.
Print Assumptions C14_consts_modes.

(* ---- ties to the neighbouring models (proofs/SizesCrossProofs.v) ---- *)

(* C01: on the stream transport the plan of Sizes.v and TcpStream.plan_event (one Write from any writer state)
   queue the same segments in the same order — protocol number, fragment number, payload bytes — for client and
   server, first and later writes, every mode OFF/32/40/48/56 and every byte string (also the empty one) *)
Theorem C14_plan_agrees_with_tcpstream : forall (client : bool) (st : TcpStream.wst) (modeN : N) (b : list N) mtu,
  (modeN <= 4)%N ->
  map (proj14 client)
      (fst (fst (plan_write client (negb (TcpStream.w_opened st)) mtu C14_TransportStream (Z.of_N modeN) b))) =
  map proj01 (fst (TcpStream.plan_event client st (TcpStream.WWrite modeN b))).
Proof. exact plan_agrees_with_tcpstream. Qed.
Print Assumptions C14_plan_agrees_with_tcpstream.

(* C09: dgram_len is the length of Wire.udp_datagram (the layout of C09_udp_datagram_length) for every segment
   kind, when the paddings and the wire payload have the lengths the segment says *)
Theorem C14_dgram_len_agrees_with_wire : forall (seal : list N -> list N -> list N -> list N),
  (forall k n p, length (seal k n p) = (length p + N.to_nat Wire.TagOverhead)%nat) ->
  forall key nonce meta pad1 payload pad2 (s : seg) p1 p2,
  N.of_nat (length nonce) = Wire.NonceSize -> N.of_nat (length meta) = Wire.MetadataLength ->
  Z.of_nat (length pad1) = (if is_session (s_kind s) then 0 else p1) ->
  Z.of_nat (length pad2) = p2 ->
  Z.of_nat (length payload) =
    (if s_body s >? 0 then match s_kind s with KDataLE => s_plen s | _ => s_body s end else 0) ->
  (s_kind s = KDataLE -> 0 < s_body s -> 0 < s_plen s) ->
  Z.of_nat (length (Wire.udp_datagram seal key nonce meta pad1 payload pad2 (fun x => x))) = dgram_len s p1 p2.
Proof. exact dgram_len_agrees_with_wire. Qed.
Print Assumptions C14_dgram_len_agrees_with_wire.

(* C02/C13: whatever endpoint X (false = client, true = server) of UdpProto may emit is within the MTU:
   (a) every content a Write hands to the sender is a sequenced type of X, carries s_body bytes and every
       datagram made of it (first transmission or retransmission, any padding draw within the maxima) is <= mtu;
   (b) every sequenced or ack type of X is one of the seven kinds of Sizes.v, and the payload-free segment of every
       non-data kind (open/close request/response, pure ack) is <= mtu *)
Theorem C14_every_segment_kind_within_mtu : forall mtu mode (X first : bool) (b : list N) cfg_mid cfg_end,
  mtu_ok mtu -> mode_ok mode ->
  (forall s p, In (s, p) (fst (fst (plan_write (negb X) first mtu C14_TransportPacket mode b))) ->
     let c := UdpProto.mkC (Z.to_N (proto_of (negb X) (s_kind s))) (Z.to_N (s_frag s)) p in
     UdpProto.is_seq X (UdpProto.c_ty c) = true /\ Z.of_nat (length (UdpProto.c_pay c)) = s_body s /\
     forall p1 p2, draws_ok mtu C14_TransportPacket cfg_mid cfg_end s p1 p2 -> dgram_len s p1 p2 <= mtu) /\
  (forall ty, UdpProto.is_seq X ty = true \/ UdpProto.is_ack X ty = true ->
     exists k, ty = Z.to_N (proto_of (negb X) k) /\
       (k <> KData -> k <> KDataLE ->
        forall p1 p2, draws_ok mtu C14_TransportPacket cfg_mid cfg_end (control_seg k) p1 p2 ->
                      dgram_len (control_seg k) p1 p2 <= mtu)).
Proof. exact every_segment_kind_within_mtu. Qed.
Print Assumptions C14_every_segment_kind_within_mtu.
