(* C16 — traffic-pattern settings: explicit values are never overridden by implicit generation; values
   left unset are a deterministic function of the seed and unlockAll and always give a configuration
   that passes validation; the quantities the runtime derives from the pattern (nonce rewrite length,
   padding maxima, low-entropy send decision) respect the configuration.  (Configuration/generation
   half; the wire half is checked on network traces.)
   Statements only; each is closed by [exact] of a lemma of proofs/TrafficPatternProofs.v.
   [fixed] is rng.FixedInt, [draw] is math/rand.Intn: arbitrary functions with values in range. *)
From Coq Require Import ZArith List.
From M Require Import gen.Consts model.TrafficPattern proofs.TrafficPatternProofs.
Import ListNotations.
Open Scope Z_scope.

(* every field set in the original message is unchanged in the effective pattern (one conjunct per
   field; a set value 0 stays 0); holds for every oracle, seed and unlockAll *)
Theorem C16_gen_preserves_explicit : forall fixed clamp orig seed unlock,
  let e := generate_with fixed clamp orig seed unlock in
  tp_seed e = tp_seed orig /\ tp_unlock e = tp_unlock orig /\
  preserved (sub (tp_tcp orig) tf_enable) (sub (tp_tcp e) tf_enable) /\
  preserved (sub (tp_tcp orig) tf_max_sleep) (sub (tp_tcp e) tf_max_sleep) /\
  preserved (sub (tp_nonce orig) np_type) (sub (tp_nonce e) np_type) /\
  preserved (sub (tp_nonce orig) np_all_udp) (sub (tp_nonce e) np_all_udp) /\
  preserved (sub (tp_nonce orig) np_min) (sub (tp_nonce e) np_min) /\
  preserved (sub (tp_nonce orig) np_max) (sub (tp_nonce e) np_max) /\
  hex_of (tp_nonce e) = hex_of (tp_nonce orig) /\
  preserved (sub (tp_pad orig) pp_mid) (sub (tp_pad e) pp_mid) /\
  preserved (sub (tp_pad orig) pp_end) (sub (tp_pad e) pp_end) /\
  preserved (sub (tp_le orig) le_mode) (sub (tp_le e) le_mode) /\
  preserved (sub (tp_le orig) le_rot) (sub (tp_le e) le_rot).
Proof. exact gen_preserves_explicit. Qed.
Print Assumptions C16_gen_preserves_explicit.

(* every field of the effective pattern is set *)
Theorem C16_gen_all_set : forall fixed clamp orig seed unlock,
  let e := generate_with fixed clamp orig seed unlock in
  is_set (sub (tp_tcp e) tf_enable) /\ is_set (sub (tp_tcp e) tf_max_sleep) /\
  is_set (sub (tp_nonce e) np_type) /\ is_set (sub (tp_nonce e) np_all_udp) /\
  is_set (sub (tp_nonce e) np_min) /\ is_set (sub (tp_nonce e) np_max) /\
  is_set (sub (tp_pad e) pp_mid) /\ is_set (sub (tp_pad e) pp_end) /\
  is_set (sub (tp_le e) le_mode) /\ is_set (sub (tp_le e) le_rot).
Proof. exact gen_all_set. Qed.
Print Assumptions C16_gen_all_set.

(* the effective pattern is a function of (original, seed, unlockAll) and of the oracle's values at the
   ten hints "<seed>:<field>" only *)
Theorem C16_gen_deterministic : forall f1 f2 clamp orig seed unlock,
  (forall n t, f1 n (seed, t) = f2 n (seed, t)) ->
  generate_with f1 clamp orig seed unlock = generate_with f2 clamp orig seed unlock.
Proof. exact gen_deterministic. Qed.
Print Assumptions C16_gen_deterministic.

(* with an explicit seed the host-derived default seed plays no role *)
Theorem C16_gen_seed_explicit : forall fixed clamp orig s h1 h2,
  tp_seed orig = Some s -> generate fixed clamp orig h1 = generate fixed clamp orig h2.
Proof. exact gen_seed_explicit. Qed.
Print Assumptions C16_gen_seed_explicit.

(* the fixed code: a valid message always yields a valid effective pattern, for every oracle in range *)
Theorem C16_effective_valid : forall fixed, oracle_ok fixed ->
  forall orig host_seed, valid orig -> valid (generate fixed true orig host_seed).
Proof. exact gen_valid. Qed.
Print Assumptions C16_effective_valid.

(* NewConfig succeeds exactly on valid messages, and then with a valid effective pattern *)
Theorem C16_new_config : forall fixed, oracle_ok fixed -> forall orig host_seed,
  (valid orig -> exists e, new_config fixed true orig host_seed = (0, Some e) /\ valid e) /\
  (~ valid orig -> snd (new_config fixed true orig host_seed) = None).
Proof. exact new_config_ok. Qed.
Print Assumptions C16_new_config.

(* the code before fixes/C16-implicit-minlen-above-explicit-maxlen.diff ([clamp = false]): a valid message
   (only nonce.maxLen = 3 set) whose effective pattern is invalid whatever the oracle draws ... *)
Theorem C16_unfixed_maxlen_refuted :
  exists orig, valid orig /\
    forall fixed host_seed, oracle_ok fixed -> ~ valid (generate fixed false orig host_seed).
Proof. exact unfixed_refuted. Qed.
Print Assumptions C16_unfixed_maxlen_refuted.

(* ... and the part that did hold of it: unless maxLen is explicit while minLen is not *)
Theorem C16_unfixed_partial : forall fixed, oracle_ok fixed -> forall orig host_seed,
  valid orig -> (sub (tp_nonce orig) np_max = None \/ sub (tp_nonce orig) np_min <> None) ->
  valid (generate fixed false orig host_seed).
Proof. exact gen_valid_unfixed_partial. Qed.
Print Assumptions C16_unfixed_partial.

(* nonceRewriteLen lies in [minLen, maxLen] clamped to the nonce size, for every draw *)
Theorem C16_nonce_len_in_range : forall draw n nonce_size, draw_ok draw ->
  let '(mn, mx) := nonce_rewrite_bounds n nonce_size in
  let len := nonce_rewrite_len draw n nonce_size in
  mn <= len <= mx /\
  mx = Z.min (getZ (np_max n)) nonce_size /\ mn = Z.min (getZ (np_min n)) mx /\
  (getZ (np_min n) <= getZ (np_max n) <= nonce_size -> getZ (np_min n) <= len <= getZ (np_max n)).
Proof. exact nonce_len_in_range. Qed.
Print Assumptions C16_nonce_len_in_range.

(* a stateless (UDP) cipher applies the pattern to the first packet, and to later ones iff
   applyToAllUDPPacket; a stateful (TCP) cipher always applies it *)
Theorem C16_udp_once : forall all_udp k,
  udp_packet_patterned all_udp k = (match k with O => true | S _ => all_udp end).
Proof. exact udp_once. Qed.
Print Assumptions C16_udp_once.
Theorem C16_stream_always : forall applied all_udp, nonce_pattern_applies true applied all_udp = true.
Proof. exact stream_always. Qed.
Print Assumptions C16_stream_always.

(* a configured maximum caps the padding budget; 0 means none *)
Theorem C16_pad_le_config : forall mtu stream frag existing p pd pos c,
  tp_pad p = Some pd ->
  (pos = 0 /\ pp_mid pd = Some c \/ pos = 1 /\ pp_end pd = Some c) -> 0 <= c ->
  let m := max_padding_tp mtu stream frag existing (Some p) pos in
  m = Z.min (max_padding_size mtu stream frag existing) c /\ 0 <= m <= c /\ (c = 0 -> m = 0) /\
  forall pad, 0 <= pad <= m -> pad <= c.
Proof. exact pad_le_config. Qed.
Print Assumptions C16_pad_le_config.

(* the send decision: exactly the configured mode and rotation, a client by its own setting alone *)
Theorem C16_le_decision : forall tp is_client client_used,
  let '(m, r, send) := le_send_decision tp is_client client_used in
  let '(cm, cr, en) := extract_le tp in
  (send = true -> en = true /\ m = cm /\ r = cr /\ cm <> C16_leModeOff /\ (is_client = true \/ client_used = true)) /\
  (send = false -> m = C16_leModeOff /\ r = C16_leRotNone) /\
  (is_client = true -> send = en) /\
  (en = true -> cm = getZ (sub (sub tp tp_le) le_mode) /\ cr = getZ (sub (sub tp tp_le) le_rot)).
Proof. exact le_decision_spec. Qed.
Print Assumptions C16_le_decision.

(* a server sends low entropy only after a low-entropy data segment of the client was received,
   for every history of received protocol types *)
Theorem C16_server_le_only_after_client : forall tp hist,
  let '(m, r, send) := server_send tp hist in
  (send = true -> In C16_protoDataC2SLowEntropy hist) /\
  (~ In C16_protoDataC2SLowEntropy hist -> send = false /\ m = C16_leModeOff /\ r = C16_leRotNone).
Proof. exact server_le_only_after_client. Qed.
Print Assumptions C16_server_le_only_after_client.

(* TCP fragmentation (writeWithPossibleFragment): for every buffer, every pattern and every sequence of draws the
   conn.Write calls carry exactly the buffer's bytes in order; with fragmentation on every piece is non-empty and
   the loop ends after at most n pieces *)
Theorem C16_tcp_fragment_same_bytes : forall tp data draws,
  concat (tcp_writes tp data draws) = data /\
  (fragments_enabled tp = true -> Forall (fun p => p <> []) (tcp_writes tp data draws) /\
                                  (length (tcp_writes tp data draws) <= length data)%nat).
Proof. exact tcp_fragment_same_bytes. Qed.
Print Assumptions C16_tcp_fragment_same_bytes.

(* the setting is honoured: enable = true (and only that) fragments - every piece within [1, max(isqrt n + 1, n/2)],
   which is < n from n = 3 on, hence at least two writes; otherwise exactly one write of the whole buffer;
   a sleep is drawn only when maxSleepMs > 0 and lies in [0, maxSleepMs] *)
Theorem C16_tcp_fragment_honoured : forall tp data draws,
  let n := Z.of_nat (length data) in
  (fragments_enabled tp = true ->
     Forall (fun p => 1 <= Z.of_nat (length p) <= Z.max (Z.sqrt n + 1) (n / 2)) (tcp_writes tp data draws) /\
     (3 <= n -> (2 <= length (tcp_writes tp data draws))%nat /\ Z.max (Z.sqrt n + 1) (n / 2) < n)) /\
  (fragments_enabled tp = false -> tcp_writes tp data draws = [data]) /\
  (fragments_enabled tp = true <-> sub (sub tp tp_tcp) tf_enable = Some true) /\
  (forall d s, frag_sleep tp d = Some s ->
     0 <= s <= getZ (sub (sub tp tp_tcp) tf_max_sleep) /\ 0 < getZ (sub (sub tp tp_tcp) tf_max_sleep)) /\
  (getZ (sub (sub tp tp_tcp) tf_max_sleep) <= 0 -> forall d, frag_sleep tp d = None).
Proof. exact tcp_fragment_honoured. Qed.
Print Assumptions C16_tcp_fragment_honoured.

(* the threshold is exact: a buffer of 1 or 2 bytes leaves in one piece whatever is drawn *)
Theorem C16_tcp_fragment_small : forall data draws,
  (1 <= length data <= 2)%nat -> fragment_plan data draws = [data].
Proof. exact tcp_fragment_small. Qed.
Print Assumptions C16_tcp_fragment_small.

(* UDP server: the nonce pattern of an emitted datagram is a function of the configuration only, not of the path
   by which the cipher block that encrypts it was obtained (discovered for the open request, block of an existing
   session, discovered for a datagram that did not open a session: rebinding / unknown session id).  For every
   configuration and every history of authenticated incoming datagrams, every datagram the server emits carries
   exactly the configured pattern, with applyToAllUDPPacket the pattern is applied to it, and every incoming
   datagram is answered with the datagrams it calls for *)
Theorem C16_udp_pattern_independent_of_block_origin : forall tp hist,
  Forall2 (fun ev ds =>
             Forall (fun d => dg_pattern d = server_nonce_cfg tp /\
                              (forall np, server_nonce_cfg tp = Some np -> getB (np_all_udp np) = true ->
                                          dg_patterned d = true)) ds /\
             (length ds = ev_out ev \/ length ds = 1%nat))
          hist (srv_run tp true srv_empty hist).
Proof. exact udp_pattern_independent_of_block_origin. Qed.
Print Assumptions C16_udp_pattern_independent_of_block_origin.

(* whatever the path, the first datagram encrypted with a newly discovered block gets the pattern (also when
   applyToAllUDPPacket is false or unset) *)
Theorem C16_udp_first_datagram_patterned : forall tp path np,
  server_nonce_cfg tp = Some np -> dg_patterned (fst (emit_one path (discover tp true path))) = true.
Proof. exact udp_first_datagram_patterned. Qed.
Print Assumptions C16_udp_first_datagram_patterned.
