(* C10 — no input from the network can crash the process; a misbehaving peer loses at most its own
   session. Statements only; each is closed by [exact] of a lemma of proofs/Dispatch*Proofs.v.
   [run fixed e l]: the endpoint (one underlay with its session table) e handles the history l of network
   inputs; [fixed = true] is the tree with fixes/C10-cross-user-session-id.diff (the code that exists now),
   [fixed = false] the pinned code. A Go panic is the distinct result [RunPanic site]. *)
From Coq Require Import NArith ZArith List Bool.
From M Require Import gen.Consts model.Dispatch proofs.DispatchReadProofs proofs.DispatchProofs.
Import ListNotations.
Open Scope N_scope.

(* every history of inputs (authenticated by any registered users with any field values, or not
   authenticated at all), either role, either transport, from every well-formed state: no panic *)
Theorem C10_no_panic : forall (e : endpoint) (l : list (env * wire)),
  wf e -> forall x, run true e l <> RunPanic x.
Proof. exact no_panic_fixed. Qed.
Print Assumptions C10_no_panic.

(* non-vacuity: the empty UDP server is well formed, and the cross-user history runs to a live state *)
Example C10_no_panic_example : wf udp_server0 /\
  run true udp_server0 witness = RunLive (mkEndpoint Server UDP 0 [mkSession 7 false false true (Some 1) (Some 1) 1]).
Proof. split; [exact wf_udp_server0 | exact witness_fixed]. Qed.

(* the pinned code: a UDP server dies when user 2 names a session of user 1 *)
Theorem C10_cross_user_refuted :
  exists e l, wf e /\ e_tr e = UDP /\ e_role e = Server /\ run false e l = RunPanic SiteUserDiffers.
Proof. exact cross_user_refuted. Qed.
Print Assumptions C10_cross_user_refuted.

(* the pinned code is safe on every history in which each input that names an existing session was
   authenticated by that session's owner, or the transport is TCP, or the endpoint is a client *)
Theorem C10_no_panic_partial : forall (e : endpoint) (l : list (env * wire)),
  wf e -> respects false e l -> forall x, run false e l <> RunPanic x.
Proof. exact no_panic_partial. Qed.
Print Assumptions C10_no_panic_partial.

Example C10_no_panic_partial_example :
  respects false udp_server0
    [(env_all, wire_of 1 P_openReq 7); (env_all, wire_of 2 P_openReq 8); (env_all, wire_of 2 P_dataC2S 8); (env_all, wire_of 1 P_closeReq 7)].
Proof. exact respects_example. Qed.

(* a segment authenticated by user u leaves every session owned by another user exactly as it was
   (server, both transports; on TCP the underlay itself may close, it has no session of another user) *)
Theorem misbehaviour_is_local : forall v e w e1 g u s,
  wf e -> is_client e = false -> read_one e w = RSeg e1 g -> g_block g = Some u ->
  find_session (s_id s) (e_sessions e) = Some s -> session_owner s <> u ->
  find_session (s_id s) (e_sessions (outcome_state e (step true v e w))) = Some s.
Proof. exact misbehaviour_local. Qed.
Print Assumptions misbehaviour_is_local.

(* what the fix prevents, as a fact about the pinned code: user 2 closes user 1's session *)
Example misbehaviour_not_local_unfixed :
  exists e', run false udp_server0
               [(env_all, wire_of 1 P_openReq 7); (env_all, wire_of 2 P_openReq 8); (env_all, wire_existing 8 P_dataS2C 7)] = RunLive e'
             /\ exists s, find_session 7 (e_sessions e') = Some s /\ s_closed s = true /\ session_owner s = 1.
Proof. exact cross_user_close_unfixed. Qed.

(* unauthenticated input: UDP ignores it, TCP closes only the connection it arrived on *)
Theorem unauthenticated_udp_ignored : forall fixed v e w,
  w_auth w = AuthNone -> is_tcp e = false -> step fixed v e w = Drop e.
Proof. exact unauthenticated_changes_nothing. Qed.
Print Assumptions unauthenticated_udp_ignored.

Theorem unauthenticated_tcp_closes_underlay : forall fixed v e w, wf e ->
  w_auth w = AuthNone -> is_tcp e = true -> step fixed v e w = CloseUnderlay.
Proof. exact unauthenticated_tcp_closes_only_its_underlay. Qed.
Print Assumptions unauthenticated_tcp_closes_underlay.

(* ---- per-site reachability *)
(* underlay_stream.go:213/216 — every error leaving readOneSegment is a top-level TypedError of a real type *)
Theorem read_one_error_typed : forall e w err, read_one e w = RErr err ->
  get_error_type (Some err) <> NO_ERROR /\ get_error_type (Some err) <> UNKNOWN_ERROR.
Proof. exact DispatchReadProofs.read_one_error_typed. Qed.
Print Assumptions read_one_error_typed.

(* ... and the realistic way to break it: one fmt.Errorf("%w") around a typed error is UNKNOWN_ERROR *)
Theorem wrapped_error_is_unknown : forall t e, get_error_type (Some (EWrapf (ETyped t e))) = UNKNOWN_ERROR.
Proof. exact wrapped_typed_is_unknown. Qed.
Print Assumptions wrapped_error_is_unknown.

(* segment.go:149-367 — only session/data segments with a sequence number reach segmentTree.Insert *)
Theorem insert_guard : forall e w e1 g, wf e -> read_one e w = RSeg e1 g ->
  (g_proto g =? P_openReq) || (g_proto g =? P_openResp) || is_data_proto (g_proto g) = true ->
  tree_insert_guard g = None.
Proof. exact DispatchProofs.insert_guard. Qed.
Print Assumptions insert_guard.

(* underlay_packet.go:440/527/588 — readOneSegment itself never panics *)
Theorem read_one_no_panic : forall e w, wf e -> forall x, read_one e w <> RPanic x.
Proof. intros e w H. exact (proj1 (read_one_ok e w H)). Qed.
Print Assumptions read_one_no_panic.

(* all sites, TCP and clients, even without the fix *)
Theorem no_site_reachable_tcp : forall fixed v e w x, wf e -> is_tcp e = true -> step fixed v e w <> Panic x.
Proof. exact all_sites_unreachable_tcp. Qed.
Print Assumptions no_site_reachable_tcp.

Theorem no_site_reachable_client : forall fixed v e w x, wf e -> is_client e = true -> step fixed v e w <> Panic x.
Proof. exact all_sites_unreachable_client. Qed.
Print Assumptions no_site_reachable_client.

(* well-formedness is an invariant (so the theorems apply after any history) *)
Theorem wf_preserved : forall fixed v e w, wf e -> step_cond fixed e w -> wf (outcome_state e (step fixed v e w)).
Proof. intros fixed v e w H C. exact (proj2 (step_ok fixed v e w H C)). Qed.
Print Assumptions wf_preserved.

(* SOCKS5 address / UDP header parsers: total functions that never consume more than the input *)
Theorem socks5_addr_bounded : forall l t host port used,
  parse_socks5_addr l = Some (t, host, port, used) -> (N.to_nat used <= length l)%nat.
Proof. exact parse_socks5_addr_bounded. Qed.
Print Assumptions socks5_addr_bounded.

Theorem socks5_udp_header_bounded : forall l hl, parse_socks5_udp l = Some hl -> (N.to_nat hl <= length l)%nat.
Proof. exact parse_socks5_udp_bounded. Qed.
Print Assumptions socks5_udp_header_bounded.

(* ---- why there is no window between session creation and the processing of its first segment *)
(* the session as the event loop stores it (nothing processed yet) already belongs to the opener and is
   invisible to every other user *)
Theorem owner_defined_at_creation : forall sid pol u rest g,
  pol <> 0 -> u <> pol -> g_sid g = sid -> g_block g = Some u ->
  session_owner (created_session sid pol) = pol /\
  lookup true (mkEndpoint Server UDP 0 (created_session sid pol :: rest)) g = None.
Proof. exact DispatchProofs.owner_defined_at_creation. Qed.
Print Assumptions owner_defined_at_creation.

(* every session in a server's table has a defined owner: the policy written at creation *)
Theorem owner_defined_in_table : forall e s, wf e -> is_client e = false -> In s (e_sessions e) ->
  session_owner s <> 0 /\ s_policy s = Some (session_owner s).
Proof. exact DispatchProofs.owner_defined_in_table. Qed.
Print Assumptions owner_defined_in_table.

(* the session goroutine never changes the owner the dispatch uses *)
Theorem owner_stable_under_input : forall v tr s g s' o, s_policy s = Some o -> o <> 0 -> input v tr s g = InOk s' ->
  session_owner s' = session_owner s.
Proof. exact owner_stable. Qed.
Print Assumptions owner_stable_under_input.

(* an owner taken from s.userName alone is undefined on the created session (the seeded variant) *)
Example username_only_undefined_at_creation : forall sid pol, owner_username_only (created_session sid pol) = 0.
Proof. exact username_only_has_window. Qed.

(* ---- the syntactic tie of read_one_error_typed to the code: in the source of /repo, no error return of
   StreamUnderlay.readOneSegment (and of the functions whose errors it hands on) is untyped; a new
   `return nil, err` with a plain error breaks this obligation before any witness is found *)
Theorem C10_consts_ok : C10_StreamReadUntypedReturns = 0%Z /\ (0 < C10_StreamReadErrorReturns)%Z.
Proof. exact stream_read_returns_typed_in_source. Qed.
Print Assumptions C10_consts_ok.
