(* C06. First the replay-cache half; at the end of the file the end-to-end half (C06_replay_rejected_tcp /
   C06_replay_rejected_udp: the server's front door of model/ServerFront.v running on this very cache).
   C06 (replay-cache half) — the server's record of recent traffic never reports never-seen
   traffic as a replay and never misses an entry inside its (interval, capacity) bounds.
   Statements only; each is closed by [exact] of a lemma of proofs/ReplayProofs.v.
   The model (model/Replay.v, [is_duplicate]) is pkg/replay/replay.go IsDuplicate with
   fixes/C06-replay-tag-overwrite.diff applied; [is_duplicate_v0]/[outs_v0] is the function
   as found at the pinned commit. *)
From Coq Require Import ZArith NArith List.
From M Require Import gen.Consts model.Replay model.KeyTime proofs.KeyTimeProofs proofs.ReplayProofs.
From M Require Import model.ServerFront proofs.ServerFrontProofs proofs.ReplayFrontInst.
Import ListNotations.
Open Scope Z_scope.

(* the tag rule of the code, spelled out: an entry stored with tag [a] is hit by tag [t] iff
   one of them is the empty tag or they differ *)
Theorem C06_tag_rule : forall a t : tag,
  tag_rule a t = true <-> (a = [] \/ t = [] \/ a <> t).
Proof. exact tag_rule_true. Qed.
Print Assumptions C06_tag_rule.

(* every history (arbitrary times): IsDuplicate says true only if the same signature was presented
   earlier in the history, with a tag that is empty, or the query's tag is empty, or they differ *)
Theorem C06_replay_no_false_positive :
  forall (capv iv T0 : Z) (c0 : cache) (h : list op) (s : N) (t : tag) (now : Z),
  new_cache capv iv T0 = Some c0 ->
  fst (step (final c0 h) (s, t, now)) = true ->
  exists t' now', In (s, t', now') h /\ (t' = [] \/ t = [] \/ t' <> t).
Proof. exact replay_no_false_positive. Qed.
Print Assumptions C06_replay_no_false_positive.

(* every history h1 (arbitrary), then x accepted (not a duplicate) at t0 with tag ta, then any h2 with
   non-decreasing times containing fewer than capacity distinct signatures other than x, then x
   again at t1 < t0 + interval with tag tq: the answer is exactly the tag rule against ta -
   a duplicate when tq is empty, ta is empty or tq <> ta (another source address); let through only
   as the documented retransmission from the very same non-empty tag *)
Theorem C06_replay_no_miss :
  forall (capv iv T0 : Z) (c0 : cache) (h1 : list op)
         (x : N) (ta : tag) (t0 : Z) (h2 : list op) (tq : tag) (t1 : Z),
  new_cache capv iv T0 = Some c0 -> capv <> 0 ->
  fst (step (final c0 h1) (x, ta, t0)) = false ->
  mono_from t0 (h2 ++ [(x, tq, t1)]) ->
  t1 < t0 + iv ->
  Z.of_nat (length (nodup N.eq_dec (remove N.eq_dec x (map op_sig h2)))) < capv ->
  fst (step (final c0 (h1 ++ (x, ta, t0) :: h2)) (x, tq, t1)) = tag_rule ta tq.
Proof. exact replay_no_miss. Qed.
Print Assumptions C06_replay_no_miss.

(* the stream cache always uses the empty tag: then every presentation at t0 (accepted or itself
   a duplicate) is still remembered at t1 inside the bounds *)
Theorem C06_replay_no_miss_empty_tag :
  forall (capv iv T0 : Z) (c0 : cache) (h1 : list op)
         (x : N) (ta : tag) (t0 : Z) (h2 : list op) (t1 : Z),
  new_cache capv iv T0 = Some c0 -> capv <> 0 ->
  mono_from t0 (h2 ++ [(x, [], t1)]) ->
  t1 < t0 + iv ->
  Z.of_nat (length (nodup N.eq_dec (remove N.eq_dec x (map op_sig h2)))) < capv ->
  fst (step (final c0 (h1 ++ (x, ta, t0) :: h2)) (x, [], t1)) = true.
Proof. exact replay_no_miss_empty_tag. Qed.
Print Assumptions C06_replay_no_miss_empty_tag.

(* from any well-formed state (not only reachable ones): some tag e is held for x after the
   presentation at t0 and it is still the one answering at t1; e is ta if the presentation was accepted *)
Theorem C06_replay_no_miss_any_state :
  forall (c : cache) (x : N) (ta : tag) (t0 : Z) (h2 : list op) (tq : tag) (t1 : Z),
  wf c ->
  mono_from t0 (h2 ++ [(x, tq, t1)]) ->
  t1 < t0 + interval c ->
  cnt x (sigs h2) < cap c ->
  exists e,
    fst (step (final c ((x, ta, t0) :: h2)) (x, tq, t1)) = tag_rule e tq /\
    (fst (step c (x, ta, t0)) = false -> e = ta) /\
    (exists n, In (x, e, n) [(x, ta, t0)] \/ In (x, e) (cur c) \/ In (x, e) (prev c)).
Proof. exact replay_no_miss_stored. Qed.
Print Assumptions C06_replay_no_miss_any_state.

(* the function as found at the pinned commit violates the no-miss statement: x accepted from tag A,
   one other new signature (capacity 2), no time passing, and the second replay from tag B passes *)
Theorem C06_pinned_code_no_miss_refuted :
  exists (c0 : cache) (h1 h2 : list op) (x : N) (ta tq : tag) (t0 t1 : Z),
    new_cache 2 60 0 = Some c0 /\
    nth 1 (outs_v0 c0 (h1 ++ (x, ta, t0) :: h2 ++ [(x, tq, t1)])) true = false /\
    mono_from t0 (h2 ++ [(x, tq, t1)]) /\ t1 < t0 + 60 /\ cnt x (sigs h2) < 2 /\
    tag_conflict ta tq /\
    last (outs_v0 c0 (h1 ++ (x, ta, t0) :: h2 ++ [(x, tq, t1)])) true = false.
Proof. exact v0_misses_other_source. Qed.
Print Assumptions C06_pinned_code_no_miss_refuted.

(* a disabled cache (capacity 0) never reports a duplicate and is not changed;
   the two process-wide caches are not disabled *)
Theorem C06_disabled_only_if_capacity_zero :
  (forall (c : cache) s t now, cap c = 0 -> is_duplicate c s t now = (false, c)) /\
  0 < streamReplayCapacity /\ 0 < packetReplayCapacity.
Proof. exact (conj disabled_never_duplicate process_caches_enabled). Qed.
Print Assumptions C06_disabled_only_if_capacity_zero.

(* retention of both process-wide caches is 3 x KeyRefreshInterval ... *)
Theorem C06_retention_is_three_refresh :
  streamReplayInterval_ns = 3 * KeyRefreshInterval_ns /\ packetReplayInterval_ns = 3 * KeyRefreshInterval_ns.
Proof. exact process_caches_interval. Qed.
Print Assumptions C06_retention_is_three_refresh.

(* ... which covers the whole time a receiver can use one key slot: if slot k is among the receiver's
   three at t0 (first acceptance) and still at t1 >= t0 (replay) then t1 < t0 + retention *)
Theorem C06_retention_covers_key :
  forall k t0 t1 : Z,
  In k (slots KeyRefreshInterval_ns t0) -> In k (slots KeyRefreshInterval_ns t1) -> t0 <= t1 ->
  t1 < t0 + streamReplayInterval_ns /\ t1 < t0 + packetReplayInterval_ns.
Proof. exact retention_covers_key. Qed.
Print Assumptions C06_retention_covers_key.

(* ... and the +-1 minute metadata timestamp: accepted at t0 and still acceptable at t1 >= t0 *)
Theorem C06_retention_covers_timestamp :
  forall ts t0 t1 : Z,
  era ts -> era t0 -> era t1 ->
  timestamp_ok t0 ts = true -> timestamp_ok t1 ts = true -> t0 <= t1 ->
  t1 < t0 + streamReplayInterval_ns /\ t1 < t0 + packetReplayInterval_ns.
Proof. exact retention_covers_timestamp. Qed.
Print Assumptions C06_retention_covers_timestamp.

(* ------------------------------------------------------------------------------------------------
   End-to-end half: the server's first-segment logic (model/ServerFront.v: tcp_front / udp_front) running on the
   concrete cache of model/Replay.v with the process-wide parameters.  Quantified over every cipher
   (key, open_hdr, open_body_*, le_ok, le_decode), every discovery order (cands) and signature function (sig_of);
   the only premise besides the scenario is that discovery tries registered keys only.  The cipher functions in
   force at the time of the replay (key', oh, ob, lo, ld, cd, and on UDP the whole session table ss1) are
   arbitrary and unrelated to those of the original: the copy is refused WHETHER OR NOT it decrypts. *)

(* TCP.  A first segment that created a session at t0 (cache history h1 before it); then any cache traffic h2
   (other connections, later segments of this one) with non-decreasing times, fewer than capacity other distinct
   signatures; at t1 < t0 + retention any byte string that starts with the same 72 bytes - the whole recorded
   stream, any prefix containing them, the first segment alone - arrives on a new connection from any address:
   no Write, no session, nothing for Accept; REPLAY_ERROR (read-only drain, close). *)
Theorem C06_replay_rejected_tcp :
  forall (key : Type) (open_hdr : key -> bytes -> option bytes) (open_body_tcp : key -> bytes -> bytes -> option bytes)
         (le_ok : bytes -> bool) (le_decode : bytes -> bytes -> option bytes) (cands : bytes -> addr -> list key)
         (sig_of : bytes -> N) (keys : list key),
  (forall (h : bytes) (src : addr) (k : key), In k (cands h src) -> In k keys) ->
  forall (T0 : Z) (c0 : cache)
         (key' : Type) (oh : key' -> bytes -> option bytes) (ob : key' -> bytes -> bytes -> option bytes)
         (lo : bytes -> bool) (ld : bytes -> bytes -> option bytes) (cd : bytes -> addr -> list key')
         (h1 : list op) (src0 : addr) (input0 : bytes) (t0 : Z)
         (h2 : list op) (src1 : addr) (input1 : bytes) (t1 : Z),
  new_cache streamReplayCapacity streamReplayInterval_ns T0 = Some c0 ->
  t_created (fst (tcp_front key open_hdr open_body_tcp le_ok le_decode cands sig_of cache is_duplicate
                            (final c0 h1) src0 input0 t0)) <> [] ->
  firstn hdr_len input1 = firstn hdr_len input0 ->
  let x := sig_of (firstn sig_len (firstn hdr_len input0)) in
  mono_from t0 (h2 ++ [(x, [], t1)]) ->
  t1 < t0 + streamReplayInterval_ns ->
  Z.of_nat (length (nodup N.eq_dec (remove N.eq_dec x (map op_sig h2)))) < streamReplayCapacity ->
  let r := fst (tcp_front key' oh ob lo ld cd sig_of cache is_duplicate
                          (final c0 (h1 ++ (x, [], t0) :: h2)) src1 input1 t1) in
  t_out r = [] /\ t_created r = [] /\ t_app r = [] /\ t_verdict r = V_replay.
Proof. exact c06_replay_rejected_tcp_real. Qed.
Print Assumptions C06_replay_rejected_tcp.

(* UDP.  A datagram from srcA that was accepted at t0 (it created a session, reached one, or drew a close request);
   the same bytes from a DIFFERENT source address srcB at t1 < t0 + retention, inside the capacity bound, against
   any session table: no datagram in reply, no session, nothing delivered, session table unchanged. *)
Theorem C06_replay_rejected_udp :
  forall (key : Type) (user_of : key -> N) (open_hdr : key -> bytes -> option bytes)
         (open_body_udp : key -> bytes -> bytes -> option bytes) (le_ok : bytes -> bool)
         (le_decode : bytes -> bytes -> option bytes) (cands : bytes -> addr -> list key) (sig_of : bytes -> N)
         (T0 : Z) (c0 : cache)
         (key' : Type) (uo : key' -> N) (oh : key' -> bytes -> option bytes) (ob : key' -> bytes -> bytes -> option bytes)
         (lo : bytes -> bool) (ld : bytes -> bytes -> option bytes) (cd : bytes -> addr -> list key')
         (h1 : list op) (ss0 : list (usession key)) (d : bytes) (srcA : addr) (t0 : Z)
         (h2 : list op) (ss1 : list (usession key')) (srcB : addr) (t1 : Z),
  new_cache packetReplayCapacity packetReplayInterval_ns T0 = Some c0 ->
  (let r0 := fst (udp_front key user_of open_hdr open_body_udp le_ok le_decode cands sig_of cache is_duplicate
                            (mkU key cache (final c0 h1) ss0) d srcA t0) in
   u_created r0 <> [] \/ u_delivered r0 <> [] \/ u_out r0 <> []) ->
  srcB <> srcA ->
  let x := sig_of (firstn sig_len (firstn hdr_len d)) in
  mono_from t0 (h2 ++ [(x, srcB, t1)]) ->
  t1 < t0 + packetReplayInterval_ns ->
  Z.of_nat (length (nodup N.eq_dec (remove N.eq_dec x (map op_sig h2)))) < packetReplayCapacity ->
  let st1 := mkU key' cache (final c0 (h1 ++ (x, srcA, t0) :: h2)) ss1 in
  let r := udp_front key' uo oh ob lo ld cd sig_of cache is_duplicate st1 d srcB t1 in
  u_out (fst r) = [] /\ u_created (fst r) = [] /\ u_delivered (fst r) = [] /\
  u_sessions (snd r) = ss1 /\
  (u_verdict (fst r) = V_replay_drop \/ u_verdict (fst r) = V_undecryptable).
Proof. exact c06_replay_rejected_udp_real. Qed.
Print Assumptions C06_replay_rejected_udp.

(* ---- management reloads (Mux.SetServerUsers, the body of the Reload RPC) ----
   Server state = (users generation, replay cache) (model/Replay.v [server], [set_users], [sstep]). *)

(* a reload installs the new generation and leaves the replay cache exactly as it was; over a whole history the
   cache is the one produced by the traffic alone, wherever and however often reloads are interleaved *)
Theorem C06_reload_leaves_cache_untouched :
  (forall (s : server) (g : N), s_rc (set_users s g) = s_rc s /\ s_users (set_users s g) = g) /\
  (forall (h : list sop) (s : server), s_rc (sfinal s h) = final (s_rc s) (presents h)).
Proof. exact (conj set_users_spec sfinal_cache). Qed.
Print Assumptions C06_reload_leaves_cache_untouched.

(* the no-miss theorem over histories interleaved with reloads: only the traffic counts for the bounds *)
Theorem C06_replay_no_miss_across_reload :
  forall (capv iv T0 : Z) (c0 : cache) (g0 : N) (hs1 : list sop)
         (x : N) (ta : tag) (t0 : Z) (hs2 : list sop) (tq : tag) (t1 : Z),
  new_cache capv iv T0 = Some c0 -> capv <> 0 ->
  fst (sstep (sfinal (mkServer g0 c0) hs1) (Present (x, ta, t0))) = Some false ->
  mono_from t0 (presents hs2 ++ [(x, tq, t1)]) ->
  t1 < t0 + iv ->
  Z.of_nat (length (nodup N.eq_dec (remove N.eq_dec x (map op_sig (presents hs2))))) < capv ->
  fst (sstep (sfinal (mkServer g0 c0) (hs1 ++ Present (x, ta, t0) :: hs2)) (Present (x, tq, t1))) = Some (tag_rule ta tq).
Proof. exact replay_no_miss_across_reload. Qed.
Print Assumptions C06_replay_no_miss_across_reload.

(* TCP end to end across reloads.  Discovery tries the keys of the generation that is current at that moment
   ([cands_of g], always a selection of [keys_of g]); generations are arbitrary (same users, users added or
   removed, quotas changed).  A first segment accepted under the generation current at t0, copied at
   t1 < t0 + retention inside the capacity bound after ANY history hs2 of traffic and reloads: nothing written,
   no session, nothing for the application, REPLAY_ERROR - whether or not the current generation decrypts it. *)
Theorem C06_replay_rejected_across_reload_tcp :
  forall (key : Type) (open_hdr : key -> bytes -> option bytes) (open_body_tcp : key -> bytes -> bytes -> option bytes)
         (le_ok : bytes -> bool) (le_decode : bytes -> bytes -> option bytes) (sig_of : bytes -> N)
         (cands_of : N -> bytes -> addr -> list key) (keys_of : N -> list key),
  (forall (g : N) (h : bytes) (src : addr) (k : key), In k (cands_of g h src) -> In k (keys_of g)) ->
  forall (T0 : Z) (c0 : cache) (g0 : N)
         (hs1 : list sop) (src0 : addr) (input0 : bytes) (t0 : Z)
         (hs2 : list sop) (src1 : addr) (input1 : bytes) (t1 : Z),
  new_cache streamReplayCapacity streamReplayInterval_ns T0 = Some c0 ->
  let s0 := mkServer g0 c0 in
  let front (s : server) :=
    tcp_front key open_hdr open_body_tcp le_ok le_decode (cands_of (s_users s)) sig_of cache is_duplicate (s_rc s) in
  t_created (fst (front (sfinal s0 hs1) src0 input0 t0)) <> [] ->
  firstn hdr_len input1 = firstn hdr_len input0 ->
  let x := sig_of (firstn sig_len (firstn hdr_len input0)) in
  mono_from t0 (presents hs2 ++ [(x, [], t1)]) ->
  t1 < t0 + streamReplayInterval_ns ->
  Z.of_nat (length (nodup N.eq_dec (remove N.eq_dec x (map op_sig (presents hs2))))) < streamReplayCapacity ->
  let r := fst (front (sfinal s0 (hs1 ++ Present (x, [], t0) :: hs2)) src1 input1 t1) in
  t_out r = [] /\ t_created r = [] /\ t_app r = [] /\ t_verdict r = V_replay.
Proof. exact c06_replay_rejected_tcp_across_reload. Qed.
Print Assumptions C06_replay_rejected_across_reload_tcp.

(* UDP end to end across reloads: a datagram accepted from srcA under the generation current at t0, the same
   bytes from another address srcB at t1 inside the bounds after any traffic and reloads, against any session table *)
Theorem C06_replay_rejected_across_reload_udp :
  forall (key : Type) (user_of : key -> N) (open_hdr : key -> bytes -> option bytes)
         (open_body_udp : key -> bytes -> bytes -> option bytes) (le_ok : bytes -> bool)
         (le_decode : bytes -> bytes -> option bytes) (sig_of : bytes -> N)
         (cands_of : N -> bytes -> addr -> list key)
         (T0 : Z) (c0 : cache) (g0 : N)
         (hs1 : list sop) (ss0 : list (usession key)) (d : bytes) (srcA : addr) (t0 : Z)
         (hs2 : list sop) (ss1 : list (usession key)) (srcB : addr) (t1 : Z),
  new_cache packetReplayCapacity packetReplayInterval_ns T0 = Some c0 ->
  let s0 := mkServer g0 c0 in
  let front (s : server) (ss : list (usession key)) :=
    udp_front key user_of open_hdr open_body_udp le_ok le_decode (cands_of (s_users s)) sig_of cache is_duplicate
              (mkU key cache (s_rc s) ss) in
  (let r0 := fst (front (sfinal s0 hs1) ss0 d srcA t0) in
   u_created r0 <> [] \/ u_delivered r0 <> [] \/ u_out r0 <> []) ->
  srcB <> srcA ->
  let x := sig_of (firstn sig_len (firstn hdr_len d)) in
  mono_from t0 (presents hs2 ++ [(x, srcB, t1)]) ->
  t1 < t0 + packetReplayInterval_ns ->
  Z.of_nat (length (nodup N.eq_dec (remove N.eq_dec x (map op_sig (presents hs2))))) < packetReplayCapacity ->
  let r := front (sfinal s0 (hs1 ++ Present (x, srcA, t0) :: hs2)) ss1 d srcB t1 in
  u_out (fst r) = [] /\ u_created (fst r) = [] /\ u_delivered (fst r) = [] /\
  u_sessions (snd r) = ss1 /\
  (u_verdict (fst r) = V_replay_drop \/ u_verdict (fst r) = V_undecryptable).
Proof. exact c06_replay_rejected_udp_across_reload. Qed.
Print Assumptions C06_replay_rejected_across_reload_udp.
