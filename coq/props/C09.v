(* C09 — what goes on the wire is exactly the documented protocol (docs/protocol.md).
   Statements only; each is closed by [exact] of a lemma of proofs/WireProofs.v.
   The model (model/Wire.v) transcribes the three metadata tables, the protocol type numbers and the nonce
   increment; SHA-256, PBKDF2 and the AEAD are uninterpreted (Section variables), so conformance of key
   derivation, hint and sealed boxes is established by vectors and interop runs (harness/cmd/c09), not here.
   Non-vacuity examples (ex_session_valid, ex_data_valid, ex_le_valid, ex_session_bytes, ex_le_bytes, ex_reject_..., ex_nonce_...) are in
   proofs/WireProofs.v. *)
From Coq Require Import NArith ZArith List Bool.
From M Require Import gen.Consts model.Wire proofs.WireProofs.
Import ListNotations.
Open Scope N_scope.

(* ---- constants: a changed constant of /repo breaks these ---- *)

Theorem C09_consts_keygen : C09_KeyIter = 64%Z /\ C09_KeyRefreshInterval_s = 120%Z.
Proof. exact consts_keygen. Qed.
Print Assumptions C09_consts_keygen.

Theorem C09_consts_sizes :
  MetadataLength = 32 /\ MaxSessionOpenPayload = 1024 /\ NonceSize = 24 /\ TagOverhead = 16 /\
  C09_KeyLen = 32%Z /\ HintInputLen = 16 /\ HintLen = 4 /\ maxPDU = 32768 /\ chunkLen = 8.
Proof. exact consts_sizes. Qed.
Print Assumptions C09_consts_sizes.

Theorem C09_consts_types :
  T_openSessionRequest = 2 /\ T_openSessionResponse = 3 /\ T_closeSessionRequest = 4 /\ T_closeSessionResponse = 5 /\
  T_dataClientToServer = 6 /\ T_dataServerToClient = 7 /\ T_ackClientToServer = 8 /\ T_ackServerToClient = 9 /\
  T_dataClientToServerLE = 10 /\ T_dataServerToClientLE = 11.
Proof. exact consts_types. Qed.
Print Assumptions C09_consts_types.

Theorem C09_consts_overheads :
  Z.to_N C09_streamOverhead = MetadataLength + 2 * TagOverhead /\
  Z.to_N C09_packetOverhead = NonceSize + MetadataLength + 2 * TagOverhead /\
  Z.to_N C09_packetNonHeaderPosition = NonceSize + MetadataLength + TagOverhead.
Proof. exact consts_overheads. Qed.
Print Assumptions C09_consts_overheads.

Theorem C09_consts_modes :
  map mode_source_bytes [0; 1; 2; 3; 4; 5; 6; 7] = [0; 4; 5; 6; 7; 0; 0; 0] /\
  map mode_mask_ones [0; 1; 2; 3; 4; 5; 6; 7] = [0; 16; 20; 24; 28; 0; 0; 0] /\
  (forall m, 8 <= m -> mode_source_bytes m = 0).
Proof. exact consts_modes. Qed.
Print Assumptions C09_consts_modes.

(* ---- protocol type numbers partition the byte values as documented ---- *)

Theorem C09_classification : forall p, p < 256 ->
  is_session p = ((2 <=? p) && (p <=? 5)) /\
  is_data p = ((p =? 6) || (p =? 7) || (p =? 10) || (p =? 11)) /\
  is_ack p = ((p =? 8) || (p =? 9)) /\
  is_low_entropy p = ((p =? 10) || (p =? 11)) /\
  is_data_ack p = ((6 <=? p) && (p <=? 11)).
Proof. exact classification. Qed.
Print Assumptions C09_classification.

Theorem C09_partition : forall p, p < 256 ->
  (is_session p && is_data_ack p = false) /\ (is_data p && is_ack p = false) /\
  (is_data_ack p = is_data p || is_ack p) /\ (is_low_entropy p = true -> is_data p = true) /\
  (is_session p || is_data_ack p = ((2 <=? p) && (p <=? 11))).
Proof. exact partition. Qed.
Print Assumptions C09_partition.

(* ---- offsets: each conjunct is one row of the document's table: bytes [offset, offset+width) = the field, big endian ---- *)

(* | protocol type 1 | unused 1 | timestamp 4 | session ID 4 | sequence number 4 | status code 1 | payload length 2 | suffix length 1 | unused 14 | *)
Theorem C09_meta_offsets_session : forall m,
  slice 0 1 (marshal_session m) = [b8 (s_proto m)] /\
  slice 1 1 (marshal_session m) = zeros 1 /\
  slice 2 4 (marshal_session m) = be32 (s_ts m) /\
  slice 6 4 (marshal_session m) = be32 (s_sid m) /\
  slice 10 4 (marshal_session m) = be32 (s_seq m) /\
  slice 14 1 (marshal_session m) = [b8 (s_status m)] /\
  slice 15 2 (marshal_session m) = be16 (s_plen m) /\
  slice 17 1 (marshal_session m) = [b8 (s_slen m)] /\
  slice 18 14 (marshal_session m) = zeros 14 /\
  length (marshal_session m) = 32%nat.
Proof. exact session_offsets. Qed.
Print Assumptions C09_meta_offsets_session.

(* | protocol type 1 | unused 1 | timestamp 4 | session ID 4 | sequence number 4 | unack sequence number 4 | window size 2 |
   | fragment number 1 | prefix length 1 | payload length 2 | suffix length 1 | unused 7 | *)
Theorem C09_meta_offsets_data : forall m, is_low_entropy (b8 (d_proto m)) = false ->
  slice 0 1 (marshal_data m) = [b8 (d_proto m)] /\
  slice 1 1 (marshal_data m) = zeros 1 /\
  slice 2 4 (marshal_data m) = be32 (d_ts m) /\
  slice 6 4 (marshal_data m) = be32 (d_sid m) /\
  slice 10 4 (marshal_data m) = be32 (d_seq m) /\
  slice 14 4 (marshal_data m) = be32 (d_unack m) /\
  slice 18 2 (marshal_data m) = be16 (d_win m) /\
  slice 20 1 (marshal_data m) = [b8 (d_frag m)] /\
  slice 21 1 (marshal_data m) = [b8 (d_prefix m)] /\
  slice 22 2 (marshal_data m) = be16 (d_plen m) /\
  slice 24 1 (marshal_data m) = [b8 (d_slen m)] /\
  slice 25 7 (marshal_data m) = zeros 7 /\
  length (marshal_data m) = 32%nat.
Proof. exact data_offsets. Qed.
Print Assumptions C09_meta_offsets_data.

(* | protocol type 1 | low entropy mode 1 | timestamp 4 | session ID 4 | sequence number 4 | unack sequence number 4 | window size 2 |
   | fragment number 1 | prefix length 1 | payload length 2 | suffix length 1 | low entropy mask 4 | extracted payload length 2 |
   | low entropy mask rotation 1 | *)
Theorem C09_meta_offsets_low_entropy : forall m, is_low_entropy (b8 (d_proto m)) = true ->
  slice 0 1 (marshal_data m) = [b8 (d_proto m)] /\
  slice 1 1 (marshal_data m) = [b8 (d_mode m)] /\
  slice 2 4 (marshal_data m) = be32 (d_ts m) /\
  slice 6 4 (marshal_data m) = be32 (d_sid m) /\
  slice 10 4 (marshal_data m) = be32 (d_seq m) /\
  slice 14 4 (marshal_data m) = be32 (d_unack m) /\
  slice 18 2 (marshal_data m) = be16 (d_win m) /\
  slice 20 1 (marshal_data m) = [b8 (d_frag m)] /\
  slice 21 1 (marshal_data m) = [b8 (d_prefix m)] /\
  slice 22 2 (marshal_data m) = be16 (d_plen m) /\
  slice 24 1 (marshal_data m) = [b8 (d_slen m)] /\
  slice 25 4 (marshal_data m) = be32 (d_mask m) /\
  slice 29 2 (marshal_data m) = be16 (d_elen m) /\
  slice 31 1 (marshal_data m) = [b8 (d_rot m)] /\
  length (marshal_data m) = 32%nat.
Proof. exact le_offsets. Qed.
Print Assumptions C09_meta_offsets_low_entropy.

(* be16/be32 are big endian: the value of the bytes, most significant first, is the field *)
Theorem C09_big_endian : forall v,
  be_val (be16 v) = v mod 2 ^ 16 /\ be_val (be32 v) = v mod 2 ^ 32 /\ be_val [1; 2; 3; 4] = 16909060.
Proof. exact (fun v => conj (be_val_be16 v) (conj (be_val_be32 v) eq_refl)). Qed.
Print Assumptions C09_big_endian.

(* ---- Marshal always yields MetadataLength bytes, all below 256 (for every field value, valid or not) ---- *)

Theorem C09_marshal_length :
  (forall m, N.of_nat (length (marshal_session m)) = MetadataLength /\ Forall byte_ok (marshal_session m)) /\
  (forall m, N.of_nat (length (marshal_data m)) = MetadataLength /\ Forall byte_ok (marshal_data m)).
Proof. exact (conj marshal_session_length marshal_data_length). Qed.
Print Assumptions C09_marshal_length.

(* ---- round trips: Unmarshal (Marshal m) = Some m for every valid m of each layout; Marshal is injective on valid metadata ---- *)

Theorem C09_meta_roundtrip_session : forall m, session_valid m -> unmarshal_session (marshal_session m) = Some m.
Proof. exact session_roundtrip. Qed.
Print Assumptions C09_meta_roundtrip_session.

Theorem C09_meta_roundtrip_data : forall m, data_valid m -> unmarshal_data (marshal_data m) = Some m.
Proof. exact data_roundtrip. Qed.
Print Assumptions C09_meta_roundtrip_data.

Theorem C09_meta_roundtrip_low_entropy : forall m, le_valid m -> unmarshal_data (marshal_data m) = Some m.
Proof. exact le_roundtrip. Qed.
Print Assumptions C09_meta_roundtrip_low_entropy.

Theorem C09_marshal_injective :
  (forall m1 m2, session_valid m1 -> session_valid m2 -> marshal_session m1 = marshal_session m2 -> m1 = m2) /\
  (forall m1 m2, data_valid m1 \/ le_valid m1 -> data_valid m2 \/ le_valid m2 -> marshal_data m1 = marshal_data m2 -> m1 = m2).
Proof. exact (conj session_injective data_injective). Qed.
Print Assumptions C09_marshal_injective.

(* ---- nonce: +1 on the 24-byte big-endian integer, wrapping at 2^192; the k-th encryption of a TCP direction uses
        nonce0 + k, so no nonce repeats within 2^192 encryptions ---- *)

Theorem C09_nonce_inc_is_succ : forall n, N.of_nat (length n) = NonceSize -> Forall byte_ok n ->
  be_val (nonce_inc n) = (be_val n + 1) mod 2 ^ 192 /\
  N.of_nat (length (nonce_inc n)) = NonceSize /\ Forall byte_ok (nonce_inc n).
Proof. exact nonce_inc_is_succ. Qed.
Print Assumptions C09_nonce_inc_is_succ.

Theorem C09_nonce_progression : forall k n, N.of_nat (length n) = NonceSize -> Forall byte_ok n ->
  be_val (nonce_iter k n) = (be_val n + N.of_nat k) mod 2 ^ 192.
Proof. exact nonce_iter_val. Qed.
Print Assumptions C09_nonce_progression.

Theorem C09_nonce_never_repeats : forall j k n, N.of_nat (length n) = NonceSize -> Forall byte_ok n ->
  (j < k)%nat -> N.of_nat (k - j) < 2 ^ 192 -> nonce_iter j n <> nonce_iter k n.
Proof. exact nonce_iter_distinct. Qed.
Print Assumptions C09_nonce_never_repeats.

(* ---- user hint and datagram layout, for every hash H with 32-byte output and every AEAD with a 16-byte tag ---- *)

Theorem C09_user_hint_placement : forall (H : list N -> list N), (forall x, length (H x) = 32%nat) ->
  forall user nonce, N.of_nat (length nonce) = NonceSize ->
  length (set_user_hint H user nonce) = length nonce /\
  firstn 20 (set_user_hint H user nonce) = firstn 20 nonce /\
  skipn 20 (set_user_hint H user nonce) = firstn 4 (H (user ++ firstn 16 nonce)) /\
  set_user_hint H user (set_user_hint H user nonce) = set_user_hint H user nonce.
Proof. exact set_user_hint_spec. Qed.
Print Assumptions C09_user_hint_placement.

Theorem C09_udp_datagram_length : forall (seal : list N -> list N -> list N -> list N),
  (forall k n p, length (seal k n p) = (length p + N.to_nat TagOverhead)%nat) ->
  forall key nonce meta pad1 payload pad2,
  N.of_nat (length nonce) = NonceSize -> N.of_nat (length meta) = MetadataLength ->
  length (udp_datagram seal key nonce meta pad1 payload pad2 (fun x => x)) =
  (N.to_nat (Z.to_N C09_packetNonHeaderPosition) + length pad1 +
   (match payload with [] => 0 | _ => length payload + N.to_nat TagOverhead end) + length pad2)%nat.
Proof. exact udp_datagram_length. Qed.
Print Assumptions C09_udp_datagram_length.

(* ---- UDP: the key of a server->client datagram is the key of the most recent authentic client datagram of that session
        (Session.input stores the block of every segment), so a peer that derives its key from its current time, as the
        document says, can read the reply with one of the three salts around its clock (|d| <= 120 s between sending
        and reading); a session that kept its FIRST key would not be readable from 240 s on ---- *)
From M Require Import model.KeyTime proofs.KeyTimeProofs proofs.WireKeyTimeProofs.

Theorem C09_udp_reply_key_follows_peer : forall (st : option Z) (ts : list Z) (t d : Z),
  (Z.abs d <= 120 * NS)%Z ->
  sess_run Z st (map (epoch KeyRefreshInterval_ns) (ts ++ [t])) = Some (epoch KeyRefreshInterval_ns t) /\
  In (epoch KeyRefreshInterval_ns t) (slots KeyRefreshInterval_ns (t + d)%Z).
Proof. exact udp_reply_key_follows_peer. Qed.
Print Assumptions C09_udp_reply_key_follows_peer.

Theorem C09_udp_reply_key_any_history : forall (K : Type) (st : option K) (ks : list K) (k : K),
  sess_run K st (ks ++ [k]) = Some k /\ sess_run K st [] = st.
Proof. exact (fun K st ks k => conj (sess_run_last st ks k) (sess_run_nil st)). Qed.
Print Assumptions C09_udp_reply_key_any_history.

Theorem C09_udp_first_key_goes_stale : forall t0 t : Z,
  era t0 -> era t -> (240 * NS <= Z.abs (t - t0))%Z ->
  ~ In (epoch KeyRefreshInterval_ns t0) (slots KeyRefreshInterval_ns t).
Proof. exact udp_first_key_goes_stale. Qed.
Print Assumptions C09_udp_first_key_goes_stale.

(* ---- the SOURCE of the protocol type predicates as it is now (gen/Translated.v: translated from
   pkg/protocol/metadata.go by harness/cmd/go2coq on every run, semantics of base/MiniGo.v; protocolType is a uint8
   carried as Z) equals the predicates of model/Wire.v, for every protocol number ---- *)
From M Require Import base.MiniGo gen.Translated proofs.TranslatedWireProofs.

Theorem C09_source_protocol_predicates : forall p : N,
  xl_protocol_isSessionProtocol (Z.of_N p) = is_session p /\
  xl_protocol_isDataProtocol (Z.of_N p) = is_data p /\
  xl_protocol_isAckProtocol (Z.of_N p) = is_ack p /\
  xl_protocol_isDataAckProtocol (Z.of_N p) = is_data_ack p /\
  xl_protocol_isLowEntropyProtocol (Z.of_N p) = is_low_entropy p.
Proof. exact xl_protocol_predicates_eq_model. Qed.
Print Assumptions C09_source_protocol_predicates.

(* the SOURCE of (c *aeadBlockCipher) increaseNonce as it is now (gen/Translated.v: the receiver's fields enableImplicitNonce and
   implicitNonce are parameters, the assigned implicitNonce is the result, None = panic; bytes are Z) computes nonce_inc for
   every non-empty nonce of bytes with implicit nonce mode on (Go slice lengths are below 2^63), so the k-th call on a
   24-byte nonce yields nonce0 + k mod 2^192 and no nonce repeats within 2^192 calls *)
From M Require Import proofs.TranslatedCipherProofs.
Open Scope N_scope.

Theorem C09_source_nonce_inc : forall n : list N,
  n <> [] -> Forall byte_ok n -> (Z.of_nat (length n) < 2 ^ 63)%Z ->
  xl_cipher_increaseNonce true (map Z.of_N n) = Some (map Z.of_N (nonce_inc n)).
Proof. exact xl_increaseNonce_eq_model. Qed.
Print Assumptions C09_source_nonce_inc.

Theorem C09_source_nonce_progression : forall k n, N.of_nat (length n) = NonceSize -> Forall byte_ok n ->
  exists m, xl_nonce_iter k (map Z.of_N n) = Some (map Z.of_N m) /\ be_val m = (be_val n + N.of_nat k) mod 2 ^ 192.
Proof. exact xl_nonce_progression. Qed.
Print Assumptions C09_source_nonce_progression.

Theorem C09_source_nonce_never_repeats : forall j k n, N.of_nat (length n) = NonceSize -> Forall byte_ok n ->
  (j < k)%nat -> N.of_nat (k - j) < 2 ^ 192 ->
  exists a b, xl_nonce_iter j (map Z.of_N n) = Some a /\ xl_nonce_iter k (map Z.of_N n) = Some b /\ a <> b.
Proof. exact xl_nonce_never_repeats. Qed.
Print Assumptions C09_source_nonce_never_repeats.

(* the SOURCE of the metadata codecs as it is now (gen/Translated.v; the receiver's fields are parameters, the assigned
   fields are results, the clock time.Now().Unix() is the parameter [now], bytes are Z): sessionStruct.Marshal and
   dataAckStruct.Marshal write exactly the documented layouts (Wire.marshal_session / marshal_data, the objects of
   C09_meta_offsets_.. and C09_meta_roundtrip_..) with the stamp uint32(now / 60); sessionStruct.Unmarshal accepts exactly
   the strings Wire.unmarshal_session accepts whose stamp is within one minute of the receiver's clock, returns their
   fields, and otherwise returns an error leaving the receiver untouched; it never panics (None) on any byte string *)
From M Require Import model.KeyTime proofs.TranslatedTimeProofs proofs.TranslatedMetadataProofs.
Open Scope Z_scope.

Theorem C09_source_marshal_session : forall (m : session_meta) (ts0 now : Z),
  session_in_range m -> - 2 ^ 63 <= now < 2 ^ 63 ->
  xl_protocol_sessionStruct_Marshal (Z.of_N (s_proto m)) ts0 (Z.of_N (s_sid m)) (Z.of_N (s_seq m))
    (Z.of_N (s_status m)) (Z.of_N (s_plen m)) (Z.of_N (s_slen m)) now
  = (zs (marshal_session (with_ts m (Z.to_N (stamp now)))), stamp now).
Proof. exact xl_sessionStruct_Marshal_eq_model. Qed.
Print Assumptions C09_source_marshal_session.

Theorem C09_source_marshal_data : forall (m : data_meta) (ts0 now : Z),
  data_in_range m -> - 2 ^ 63 <= now < 2 ^ 63 ->
  xl_protocol_dataAckStruct_Marshal (Z.of_N (d_proto m)) ts0 (Z.of_N (d_mode m)) (Z.of_N (d_sid m)) (Z.of_N (d_seq m))
    (Z.of_N (d_unack m)) (Z.of_N (d_win m)) (Z.of_N (d_frag m)) (Z.of_N (d_prefix m)) (Z.of_N (d_plen m))
    (Z.of_N (d_slen m)) (Z.of_N (d_mask m)) (Z.of_N (d_elen m)) (Z.of_N (d_rot m)) now
  = (zs (marshal_data (with_dts m (Z.to_N (stamp now)))), stamp now).
Proof. exact xl_dataAckStruct_Marshal_eq_model. Qed.
Print Assumptions C09_source_marshal_data.

Theorem C09_source_unmarshal_session : forall (b : list N) (p0 t0 i0 q0 c0 l0 x0 now : Z),
  Forall (fun x => (x < 256)%N) b -> - 2 ^ 63 <= now < 2 ^ 63 ->
  xl_protocol_sessionStruct_Unmarshal (zs b) p0 t0 i0 q0 c0 l0 x0 now =
  Some (match unmarshal_session b with
        | Some m => if within_range32 (stamp now) (Z.of_N (s_ts m)) 1
                    then (false, Z.of_N (s_proto m), Z.of_N (s_ts m), Z.of_N (s_sid m), Z.of_N (s_seq m),
                          Z.of_N (s_status m), Z.of_N (s_plen m), Z.of_N (s_slen m))
                    else (true, p0, t0, i0, q0, c0, l0, x0)
        | None => (true, p0, t0, i0, q0, c0, l0, x0)
        end).
Proof. exact xl_sessionStruct_Unmarshal_eq_model. Qed.
Print Assumptions C09_source_unmarshal_session.

(* both together: what the source's Marshal writes at the sender's clock, the source's Unmarshal reads back at the
   receiver's clock - same fields, the sender's stamp - iff the two minute counters are within one *)
Theorem C09_source_session_roundtrip : forall (m : session_meta) (ts0 ns nr p0 t0 i0 q0 c0 l0 x0 : Z),
  session_valid m -> - 2 ^ 63 <= ns < 2 ^ 63 -> - 2 ^ 63 <= nr < 2 ^ 63 ->
  let '(b, ts) := xl_protocol_sessionStruct_Marshal (Z.of_N (s_proto m)) ts0 (Z.of_N (s_sid m)) (Z.of_N (s_seq m))
                    (Z.of_N (s_status m)) (Z.of_N (s_plen m)) (Z.of_N (s_slen m)) ns in
  ts = stamp ns /\
  xl_protocol_sessionStruct_Unmarshal b p0 t0 i0 q0 c0 l0 x0 nr =
  Some (if within_range32 (stamp nr) (stamp ns) 1
        then (false, Z.of_N (s_proto m), stamp ns, Z.of_N (s_sid m), Z.of_N (s_seq m), Z.of_N (s_status m),
              Z.of_N (s_plen m), Z.of_N (s_slen m))
        else (true, p0, t0, i0, q0, c0, l0, x0)).
Proof. exact xl_session_marshal_unmarshal. Qed.
Print Assumptions C09_source_session_roundtrip.

(* the same pair of codecs across two clocks (the C08 window, stated here because it depends on the codec proofs): stamped
   by the source's Marshal at sender instant t (unix ns), read by the source's Unmarshal at receiver instant t + d, at every
   instant of the uint32-minute era: accepted with the sender's fields if |d| <= 60 s, refused if |d| >= 120 s *)
From M Require Import proofs.KeyTimeProofs.
Theorem C09_source_session_timestamp_window : forall (m : session_meta) (ts0 t d p0 t0 i0 q0 c0 l0 x0 : Z),
  session_valid m -> era t -> era (t + d) ->
  let '(b, ts) := xl_protocol_sessionStruct_Marshal (Z.of_N (s_proto m)) ts0 (Z.of_N (s_sid m)) (Z.of_N (s_seq m))
                    (Z.of_N (s_status m)) (Z.of_N (s_plen m)) (Z.of_N (s_slen m)) (t / NS) in
  (Z.abs d <= 60 * NS ->
     xl_protocol_sessionStruct_Unmarshal b p0 t0 i0 q0 c0 l0 x0 ((t + d) / NS) =
     Some (false, Z.of_N (s_proto m), minute t, Z.of_N (s_sid m), Z.of_N (s_seq m), Z.of_N (s_status m),
           Z.of_N (s_plen m), Z.of_N (s_slen m))) /\
  (120 * NS <= Z.abs d ->
     xl_protocol_sessionStruct_Unmarshal b p0 t0 i0 q0 c0 l0 x0 ((t + d) / NS) = Some (true, p0, t0, i0, q0, c0, l0, x0)).
Proof. exact xl_session_timestamp_window. Qed.
Print Assumptions C09_source_session_timestamp_window.
