(* C12 - loopback and private destinations are refused unless the user is allowed.
   Statements only; each is closed by [exact] of a lemma of proofs/EgressProofs.v.
   The model (model/Egress.v) describes /repo with fixes/C12-findaction-local-forms.diff and
   fixes/C12-udp-relay.diff applied; its parameter fx says whether fixes/C12-domain-literal.diff is applied
   too (true in all theorems except C12_domain_literal_refuted_before_fix), and C12_tree_fixed says that
   the tree the constants were regenerated from is the fixed one.
   lit is the reading of a domain string as an IP literal by Go's resolver and dialer (netip.ParseAddr, zone
   dropped, unmapped); the theorems hold for every lit that is lit_sane (the empty string and the well-known
   names are no literals) / lit_bytes_ok (a literal denotes byte values); the driver supplies the real one.
   LoopDest / PrivDest / LoopDestFull are the property's sets (model/Egress.v, last section), written on
   numeric address ranges, independent of the byte tests; HostIs: the address in binary form or as a literal.
   Non-vacuity: Examples ex_reject_name, ex_reject_mapped_private, ex_allowed, ex_first_match, ex_relay,
   ex_literal_fixed. *)
From Coq Require Import List NArith ZArith Bool.
From M Require Import gen.Consts model.Egress proofs.EgressProofs.
Import ListNotations.
Open Scope N_scope.

(* requests: a CONNECT or UDP ASSOCIATE whose destination is in the loopback class (loopback IP in 4-byte,
   mapped or native form or written as an IP literal in a domain-typed address, empty host, well-known name
   in any letter case with or without the trailing dot, unspecified address in CONNECT) from a user without
   the loopback permission is answered REJECT; same for the private class *)
Theorem C12_reject_local : forall lit, lit_sane lit -> forall cfg uname data idx cmd a,
  parse_request data = Some (cmd, a) -> is_conn_or_assoc cmd ->
  (LoopDest lit cmd a -> c_allow_loop_dest cfg = false -> user_loop cfg uname = false ->
     find_action true lit cfg true uname data idx = (ACT_REJECT, None)) /\
  (PrivDest lit a -> user_priv cfg uname = false ->
     find_action true lit cfg true uname data idx = (ACT_REJECT, None)).
Proof. exact c12_reject_local. Qed.
Print Assumptions C12_reject_local.

(* relayed datagrams: over every association (any datagrams, both relay modes), nothing is sent to a
   destination of the loopback class (unspecified address included, no exception) or of the private class
   - named in binary or as a literal in a domain-typed header - unless the user has that permission *)
Theorem C12_relay_no_local : forall lit, lit_sane lit -> forall cfg uname stop pkts a,
  In a (relay_run true lit cfg uname stop pkts) ->
  (LoopDestFull lit a -> c_allow_loop_dest cfg = false -> user_loop cfg uname = true) /\
  (PrivDest lit a -> user_priv cfg uname = true).
Proof. exact c12_relay_no_local. Qed.
Print Assumptions C12_relay_no_local.

(* the text of the property also asks REJECT for a UDP ASSOCIATE *request* naming the unspecified address:
   false of the code, deliberately (RFC 1928 tells clients to send all zeros; nothing is ever sent there) *)
Theorem C12_assoc_unspecified_refuted :
  exists lit cfg uname data idx a,
    lit_sane lit /\
    parse_request data = Some (CMD_ASSOC, a) /\ UnspecIP (a_ip a) /\ a_fqdn a = [] /\
    c_allow_loop_dest cfg = false /\ user_loop cfg uname = false /\
    find_action true lit cfg true uname data idx = (ACT_DIRECT, None).
Proof. exact c12_assoc_unspecified_refuted. Qed.
Print Assumptions C12_assoc_unspecified_refuted.

(* before fixes/C12-domain-literal.diff (fx = false): CONNECT of the unknown user to the domain-typed
   literal "127.0.0.1" (in LoopDest), and to "localhost." (a LocalName), is answered DIRECT *)
Theorem C12_domain_literal_refuted_before_fix :
  (exists lit cfg uname data idx a,
     lit_sane lit /\ parse_request data = Some (CMD_CONNECT, a) /\ LoopDest lit CMD_CONNECT a /\
     c_allow_loop_dest cfg = false /\ user_loop cfg uname = false /\
     find_action false lit cfg true uname data idx = (ACT_DIRECT, None)) /\
  (exists lit cfg uname data idx a,
     lit_sane lit /\ parse_request data = Some (CMD_CONNECT, a) /\ a_ip a = [] /\ LocalName (a_fqdn a) /\
     c_allow_loop_dest cfg = false /\ user_loop cfg uname = false /\
     find_action false lit cfg true uname data idx = (ACT_DIRECT, None)).
Proof. exact c12_domain_literal_refuted_before_fix. Qed.
Print Assumptions C12_domain_literal_refuted_before_fix.

(* users granted the access, and all destinations outside the two classes, get exactly what the rule list
   says (wire bytes < 256) *)
Theorem C12_allowed_unaffected : forall lit, lit_bytes_ok lit -> forall cfg uname data idx cmd a,
  bytes_ok data -> parse_request data = Some (cmd, a) -> is_conn_or_assoc cmd ->
  (LoopDest lit cmd a -> user_loop cfg uname = true \/ c_allow_loop_dest cfg = true) ->
  (PrivDest lit a -> user_priv cfg uname = true) ->
  find_action true lit cfg true uname data idx = rules_action cfg a idx.
Proof. exact c12_allowed_unaffected. Qed.
Print Assumptions C12_allowed_unaffected.

(* a datagram to a destination with a host is relayed exactly when that decision is not REJECT *)
Theorem C12_relay_filter_exact : forall lit fx cfg uname stop c a,
  parse_addr c = Some (a, []) -> ~ (a_ip a = [] /\ a_fqdn a = []) ->
  forall payload, (3 < length (c ++ payload))%nat ->
  relay_step fx lit cfg uname stop ([0; 0; 0] ++ c ++ payload) =
  if fst (find_action fx lit cfg true uname (VER :: CMD_CONNECT :: 0 :: c) 0) =? ACT_REJECT then RDropped else RSent a.
Proof. exact relay_step_filter. Qed.
Print Assumptions C12_relay_filter_exact.

(* rules are applied in order, the first matching rule decides; no match means DIRECT *)
Theorem C12_first_match : forall cfg a idx,
  (forall rs1 r rs2, c_rules cfg = rs1 ++ r :: rs2 ->
     (forall r', In r' rs1 -> match_rule a r' = false) -> match_rule a r = true ->
     rules_action cfg a idx = rule_result cfg r idx) /\
  ((forall r, In r (c_rules cfg) -> match_rule a r = false) -> rules_action cfg a idx = (ACT_DIRECT, None)).
Proof. exact c12_first_match. Qed.
Print Assumptions C12_first_match.

(* the tree under test contains fixes/C12-domain-literal.diff (probe regenerated with the constants):
   the model executed by the correspondence run is the one the theorems above speak about *)
Theorem C12_tree_fixed : tree_fixed = true.
Proof. exact c12_tree_fixed. Qed.
Print Assumptions C12_tree_fixed.
