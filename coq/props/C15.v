(* C15: Close completes, unblocks everyone, leaves nothing running; deadlines bound calls.
   Statements only; proofs are in proofs/LifecycleProofs.v. *)
From Coq Require Import ZArith List Bool Arith.
From M Require Import gen.Consts model.Deadline model.Lifecycle proofs.LifecycleProofs.
Import ListNotations.

Theorem C15_consts_ok : ((C15_closeWaitIterations = 1000 /\ C15_closeWaitSleep_ns = 1000000 /\ C15_serverRespTimeout_ns = 10000000000
   /\ 60000000000 <= C15_readOneSegmentTimeout_ns <= 120000000000 /\ C15_idleSessionTimeout_ns = 60000000000
   /\ C15_sessionCleanInterval_ns = 5000000000 /\ C15_backPressureDelay_ns = 100000)%Z)%Z.
Proof. exact C15_consts_ok. Qed.
Print Assumptions C15_consts_ok.

Theorem close_idempotent : (forall s, reachable s ->
  nclosed s <= 1 /\ (closedChan s = true -> nclosed s = 1) /\ active (pC1 s) + active (pC2 s) <= 1
  /\ (forall one : bool, closeRequested s = true -> (if one then pC1 s else pC2 s) = CIdle -> call_close one s = Some (setC one s CRet)))%nat.
Proof. exact close_idempotent_all. Qed.
Print Assumptions close_idempotent.

Theorem C15_unblock : (forall ls s s' a,
  closedChan s = true -> pR s = RWait a -> no_retake ls -> run s ls = Some s' ->
  (In TR ls -> exists c, pR s' = RRet c /\ (c = DATA \/ c = EOF \/ c = UEOF \/ c = TIMEOUT))
  /\ (~ In TR ls -> pR s' = RWait a /\ exists s'', step TR s' = Some s''))%nat.
Proof. exact unblock_reader_trace. Qed.
Print Assumptions C15_unblock.

Theorem C15_unblock_waitpoints : (forall s, inv s -> closedChan s = true ->
  (forall a, pR s = RWait a -> exists s' c, step TR s = Some s' /\ pR s' = RRet c /\ (c = DATA \/ c = EOF))
  /\ (forall a, pW s = WSpace a -> exists s', step TW s = Some s' /\ pW s' = WRet EOF)
  /\ (forall a, pW s = WOLock a -> olock_free s = true -> exists s', step TW s = Some s' /\ pW s' = WRet EOF)
  /\ (pW s = WMove -> exists s', step TW s = Some s' /\ pW s' = WRet OK)
  /\ (pI s = LRun -> exists s', step TI s = Some s' /\ pI s' = LExited)
  /\ (pI s = LRecvSpace -> exists s', step TI s = Some s' /\ pI s' = LRun)
  /\ (pO s = LRun -> exists s', step TO s = Some s' /\ pO s' = LExited)
  /\ (pO s = LConnWrite -> net_ok s = true -> exists s', step TO s = Some s' /\ (pO s' = LRun \/ pO s' = LErr (keepLock s) CIdle))
  /\ (pE s = EDeliver -> exists s', step TE s = Some s' /\ pE s' = ERun))%nat.
Proof. exact unblock_waitpoints_all. Qed.
Print Assumptions C15_unblock_waitpoints.

Theorem C15_invariant_every_interleaving : (forall s, reachable s -> inv s)%nat.
Proof. exact reachable_inv. Qed.
Print Assumptions C15_invariant_every_interleaving.

Theorem C15_closed_is_stable : (forall l s s', step l s = Some s' ->
  (closedChan s = true -> closedChan s' = true) /\ (closeRequested s = true -> closeRequested s' = true)
  /\ (connDL s = true -> connDL s' = true) /\ (udone s = true -> udone s' = true))%nat.
Proof. exact step_monotone. Qed.
Print Assumptions C15_closed_is_stable.

Theorem C15_close_bounded_partial : ((forall (one : bool) s s', call_close one s = Some s' -> mC (if one then pC1 s' else pC2 s') <= grace_iters + 4)
  /\ (forall one s s', step_closer one s = Some s' -> mC (if one then pC1 s' else pC2 s') < mC (if one then pC1 s else pC2 s))
  /\ (forall (one : bool) s, active (if one then pC1 s else pC2 s) = 1 ->
        olock_free s = true \/ (if one then pC1 s else pC2 s) <> COLock ->
        net_ok s = true \/ (if one then pC1 s else pC2 s) <> COutput -> exists s', step_closer one s = Some s')
  /\ grace_iters = 1000)%nat.
Proof. exact close_bounded_all. Qed.
Print Assumptions C15_close_bounded_partial.

Theorem C15_session_close_blocks_refuted : (exists s, run (init true true) stall_trace = Some s
    /\ pC1 s = COLock /\ pO s = LConnWrite /\ closedChan s = false
    /\ step TC1 s = None /\ step TO s = None /\ step TC2 s = None /\ step TR s = None /\ step TW s = None)%nat.
Proof. exact session_close_can_block. Qed.
Print Assumptions C15_session_close_blocks_refuted.

Theorem C15_underlay_close_releases : (forall s, run (init true true) stall_trace = Some s ->
  exists s', run s [ACallUnderlayClose; TO; TO; TO; TC1; TC1; TC1; TO; TI; TU; TU; TU; TU] = Some s'
    /\ closedChan s' = true /\ pC1 s' = CRet /\ pO s' = LExited /\ pI s' = LExited /\ pU s' = URet /\ udone s' = true /\ nclosed s' = 1)%nat.
Proof. exact underlay_close_releases. Qed.
Print Assumptions C15_underlay_close_releases.

Theorem C15_underlay_close_releases_event_loop : ((forall s s', invK s -> fixedLoop s = true -> pU s = USecondDL -> step TU s = Some s' -> released s')
  /\ (forall l s s', released s -> step l s = Some s' -> released s')
  /\ (forall s, released s -> pE s <> EExited -> exists s', step TE s = Some s' /\ mEv s' < mEv s)
  /\ (forall l s s', released s -> step l s = Some s' -> l <> TE -> mEv s' <= mEv s)
  /\ (forall s, mEv s <= 6) /\ (forall s, mEv s = 0 -> pE s = EExited)
  /\ (forall c a ls s, run (init c a) ls = Some s -> invK s /\ fixedLoop s = true))%nat.
Proof. exact underlay_close_releases_event_loop_all. Qed.
Print Assumptions C15_underlay_close_releases_event_loop.

Theorem C15_event_loop_rearms_refuted_before_fix : (exists s, run (init_vv false false true true) rearm_trace = Some s
    /\ pU s = URet /\ udone s = true /\ pE s = ERead /\ readDL s = false /\ step TE s = None)%nat.
Proof. exact event_loop_rearm_before_fix. Qed.
Print Assumptions C15_event_loop_rearms_refuted_before_fix.

Theorem C15_event_loop_rearm_schedule_on_fixed_code : (exists s, run (init true true) (rearm_trace ++ [TU; TE; TE]) = Some s /\ pU s = URet /\ pE s = EExited)%nat.
Proof. exact event_loop_rearm_trace_fixed. Qed.
Print Assumptions C15_event_loop_rearm_schedule_on_fixed_code.

Theorem C15_output_error_close_no_self_deadlock : (forall s,
  inv s -> keepLock s = false -> (connDL s = true \/ netBroken s = true) ->
  closeRequested s = true -> closedChan s = false ->
  exists l s', In l [TC1; TC2; TO] /\ step l s = Some s' /\ closing_measure s' < closing_measure s)%nat.
Proof. exact output_error_close_progress. Qed.
Print Assumptions C15_output_error_close_no_self_deadlock.

Theorem C15_output_loop_error_path_not_stuck : (forall s h c,
  inv s -> keepLock s = false -> (connDL s = true \/ netBroken s = true) -> pO s = LErr h c ->
  h = false /\ exists s', step TO s = Some s' /\ mO (pO s') < mO (pO s) /\ mO (pO s) <= 7 + (match c with CGrace n => n + 1 | _ => 0 end))%nat.
Proof. exact output_loop_error_path_not_stuck. Qed.
Print Assumptions C15_output_loop_error_path_not_stuck.

Theorem C15_output_error_close_keep_lock_refuted : (exists s, run (init_v true true true) self_deadlock_trace = Some s
    /\ pO s = LErr true COLock /\ closeRequested s = true /\ closedChan s = false /\ outputErr s = true
    /\ pR s = RWait false /\ pC1 s = CRet /\ pU s = UWg
    /\ step TO s = None /\ step TC1 s = None /\ step TC2 s = None /\ step TR s = None /\ step TU s = None /\ step TI s <> None)%nat.
Proof. exact output_error_close_keep_lock_deadlocks. Qed.
Print Assumptions C15_output_error_close_keep_lock_refuted.

Theorem C15_output_error_close_code_completes : (exists s, run (init true true) (self_deadlock_trace ++ [TO; TO; TO; TO; TO; TI; TR; TU; TU]) = Some s
    /\ closedChan s = true /\ nclosed s = 1 /\ pO s = LExited /\ pI s = LExited /\ pR s = RRet EOF /\ pU s = URet /\ udone s = true)%nat.
Proof. exact output_error_close_code_completes. Qed.
Print Assumptions C15_output_error_close_code_completes.

Theorem C15_lock_discipline_of_the_code : (forall s, reachable s -> keepLock s = false)%nat.
Proof. exact reachable_keepLock. Qed.
Print Assumptions C15_lock_discipline_of_the_code.

Theorem C15_deadline_refuted : (forall cl, ~ persists_read cl).
Proof. exact read_deadline_refuted. Qed.
Print Assumptions C15_deadline_refuted.

Theorem C15_deadline_witness : (forall cl,
  Deadline.run (mkSt 0 (mkD 0 0) cl) [OSet WhR 200000; ORead never never never; ORead never never never]
  = [(TIMEOUT, Some 200000); (BLOCKED, None)])%Z.
Proof. exact read_deadline_witness. Qed.
Print Assumptions C15_deadline_witness.

Theorem C15_deadline_single_call_partial : (forall now eff data closed err,
  eff <> 0 -> exists c t, read_outcome now eff data closed err = (c, Some t) /\ t <= Z.max now eff /\ now <= t)%Z.
Proof. exact read_single_call. Qed.
Print Assumptions C15_deadline_single_call_partial.

Theorem C15_write_deadline_refuted : (forall cl, ~ persists_write cl).
Proof. exact write_deadline_refuted. Qed.
Print Assumptions C15_write_deadline_refuted.

Theorem C15_write_deadline_single_call_partial : (forall now eff space closed oerr,
  eff <> 0 -> exists c t, write_outcome now eff false space (Some now) (Some now) closed oerr = (c, Some t) /\ t <= Z.max now eff)%Z.
Proof. exact write_single_call_live. Qed.
Print Assumptions C15_write_deadline_single_call_partial.

Theorem C15_write_deadline_ignored_when_stalled : (forall now eff closed oerr,
  write_outcome now eff false (Some now) None (Some now) closed oerr = (BLOCKED, None)
  /\ write_outcome now eff false (Some now) (Some now) None None oerr =
     (if (match dl_exit now eff with Some x => x <=? now | None => false end) then write_outcome now eff false (Some now) (Some now) None None oerr
      else if (match at_or_after now oerr with Some x => x <=? now | None => false end) then write_outcome now eff false (Some now) (Some now) None None oerr
      else (BLOCKED, None)))%Z.
Proof. exact write_deadline_ignored_when_stalled. Qed.
Print Assumptions C15_write_deadline_ignored_when_stalled.

Theorem C15_client_write_overwrites_read_deadline : (forall t s,
  rd (write_return true false OK t s) = t + 10000000 /\ wd (write_return true false OK t s) = 0)%Z.
Proof. exact client_write_overwrites_read_deadline. Qed.
Print Assumptions C15_client_write_overwrites_read_deadline.

Theorem C15_client_write_witness : (Deadline.run (mkSt 0 (mkD 0 0) true) [OSet WhR 300000; OWrite false (Some 0) (Some 0) (Some 50000) never never; ORead never never never]
  = [(OK, Some 50000); (TIMEOUT, Some 10050000)])%Z.
Proof. exact client_write_witness. Qed.
Print Assumptions C15_client_write_witness.

Theorem C15_read_after_closed_returns : (forall s, closedChan s = true -> pR s = RIdle ->
  exists s1, step ACallRead s = Some s1 /\
    ((exists c, pR s1 = RRet c) \/ exists a s2 c, pR s1 = RWait a /\ step TR s1 = Some s2 /\ pR s2 = RRet c))%nat.
Proof. exact read_after_closed. Qed.
Print Assumptions C15_read_after_closed_returns.

Theorem C15_write_after_close_requested_returns : (forall s, closeRequested s = true -> pW s = WIdle ->
  exists s', step ACallWrite s = Some s' /\ pW s' = WRet CLOSED)%nat.
Proof. exact write_after_close_requested. Qed.
Print Assumptions C15_write_after_close_requested_returns.

Theorem C15_mux_close_releases_every_running_underlay : (forall ops,
  forallb tracked (mux_run clean_one [] ops) = true
  /\ forallb u_done (mux_step clean_one (mux_run clean_one [] ops) MClose) = true
  /\ (forall u, tracked u = true -> tracked (clean_one u) = true
                /\ (clean_one u = u \/ (u_done (clean_one u) = true /\ u_listed (clean_one u) = false))))%nat.
Proof. exact mux_close_releases_all. Qed.
Print Assumptions C15_mux_close_releases_every_running_underlay.

Theorem C15_mux_clean_dropping_refuted : (exists ops, forallb tracked (mux_run clean_one_dropping [] ops) = false
    /\ forallb u_done (mux_step clean_one_dropping (mux_run clean_one_dropping [] ops) MClose) = false
    /\ forallb u_done (mux_step clean_one (mux_run clean_one [] ops) MClose) = true)%nat.
Proof. exact mux_clean_dropping_refuted. Qed.
Print Assumptions C15_mux_clean_dropping_refuted.

Theorem C15_close_request_whenever_peer_may_hold : ((forall st, peer_may_hold st = true -> code_sends_close_request st = true)
  /\ (exists st, peer_may_hold st = true /\ established_only_sends_close_request st = false))%nat.
Proof. exact close_request_whenever_peer_may_hold. Qed.
Print Assumptions C15_close_request_whenever_peer_may_hold.
