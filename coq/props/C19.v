(* C19 — traffic accounting is conserved; quotas bind exactly the user who exceeded them.
   Statements only; each is closed by [exact] of a lemma of proofs/CounterProofs.v or proofs/QuotaProofs.v. *)
From Coq Require Import ZArith NArith List Bool.
From M Require Import gen.Consts model.Counter model.Quota model.Account proofs.CounterProofs proofs.QuotaProofs proofs.AccountProofs.
Import ListNotations.
Open Scope Z_scope.

(* compacting never changes the total: every history (any timestamps, labels, deltas), every clock value *)
Theorem C19_rollup_sum : forall now h, hsum (roll_up now h) = hsum h.
Proof. exact rollup_sum. Qed.
Print Assumptions C19_rollup_sum.

(* ... and every single doRollUp pass, whatever its labels, threshold and granularity *)
Theorem C19_pass_sum : forall from to dur trunc now h, hsum (do_roll_up from to dur trunc now h) = hsum h.
Proof. exact do_roll_up_sum. Qed.
Print Assumptions C19_pass_sum.

(* compacting never disorders a history the counter can have built (invariant of DESIGN A.6), and keeps the invariant *)
Theorem C19_rollup_sorted : forall now hi h, wf_history hi h -> sorted (roll_up now h) /\ wf_history hi (roll_up now h).
Proof. exact rollup_sorted_wf. Qed.
Print Assumptions C19_rollup_sorted.

(* all histories of increments with non-decreasing timestamps, any start of the operation counter (so roll-up
   falls at any operation count), any clock values: the stored history is ordered in time *)
Theorem C19_history_sorted : forall ops op0 hi, mono_adds hi ops -> sorted (c_hist (run ops (mkC 0 [] op0))).
Proof. exact history_sorted. Qed.
Print Assumptions C19_history_sorted.

(* the order claim needs the invariant: a time-ordered history with a forged (unaligned) label is disordered *)
Theorem C19_rollup_sorted_any_history_refuted : exists now h, sorted h /\ ~ sorted (roll_up now h).
Proof. exact rollup_sorted_needs_wf. Qed.
Print Assumptions C19_rollup_sorted_any_history_refuted.

(* with non-negative deltas no window reports more than the total (nor less than nothing) *)
Theorem C19_window_le_total : forall h t1 t2, nonneg h -> 0 <= delta_between h t1 t2 <= hsum h.
Proof. exact window_le_total. Qed.
Print Assumptions C19_window_le_total.

(* value = sum of the history = sum of the increments, over every operation history (arbitrary timestamps) *)
Theorem C19_value_eq_history_sum : forall ops c, consistent c -> consistent (run ops c).
Proof. exact value_eq_history_sum. Qed.
Print Assumptions C19_value_eq_history_sum.

Theorem C19_value_eq_increments : forall ops c, c_value (run ops c) = c_value c + ops_sum ops.
Proof. exact value_eq_increments. Qed.
Print Assumptions C19_value_eq_increments.

(* dump and reload: totals never decrease; loading a consistent dump into a counter that is not ahead is lossless *)
Theorem C19_load_monotone : forall dst same v h now, c_value dst <= c_value (load_pb dst same v h now).
Proof. exact load_monotone. Qed.
Print Assumptions C19_load_monotone.

Theorem C19_load_lossless : forall dst v h now,
  v = hsum h -> c_value dst <= v ->
  let c := load_pb dst true v h now in c_value c = v /\ c_hist c = h /\ consistent c.
Proof. exact load_lossless. Qed.
Print Assumptions C19_load_lossless.

(* refused <=> own policy, own counters, and for some quota: window sum quot 2^20 > megabytes *)
Theorem C19_quota_refuse_iff : forall pol u m now,
  (forall p, pol = Some p -> Forall days_ok (p_quotas p)) ->
  (refused (check_quota pol u m now) = true <->
   exists p up down q, pol = Some p /\ p_name p = u /\ lookup u m = Some (up, down) /\
                       In q (p_quotas p) /\ exceeded q up down now).
Proof. exact quota_refuse_iff. Qed.
Print Assumptions C19_quota_refuse_iff.

(* the comparison in bytes *)
Theorem C19_exceeded_bytes : forall q up down now, 0 <= q_mb q ->
  (exceeded q up down now <-> (q_mb q + 1) * C19_QuotaBytesPerMegabyte <= window_total q up down now).
Proof. exact exceeded_bytes. Qed.
Print Assumptions C19_exceeded_bytes.

(* users within their allowance are never refused *)
Theorem C19_within_allowance_never_refused : forall p u m up down now,
  Forall days_ok (p_quotas p) -> lookup u m = Some (up, down) -> nonneg up -> nonneg down ->
  (forall q, In q (p_quotas p) -> 0 <= q_mb q /\ hsum up + hsum down < (q_mb q + 1) * C19_QuotaBytesPerMegabyte) ->
  refused (check_quota (Some p) u m now) = false.
Proof. exact within_allowance_never_refused. Qed.
Print Assumptions C19_within_allowance_never_refused.

(* isolation: the decision for u depends only on u's policy and u's counters; other users' counters never matter;
   a user without quotas (or a session without the user's own policy, or without counters) is never refused *)
Theorem C19_isolation : forall pol u now,
  (forall m m', lookup u m = lookup u m' -> check_quota pol u m now = check_quota pol u m' now) /\
  (forall v x m, name_eqb v u = false -> check_quota pol u ((v, x) :: m) now = check_quota pol u m now) /\
  (forall m, (pol = None \/ (exists p, pol = Some p /\ (p_quotas p = [] \/ p_name p <> u)) \/ lookup u m = None) ->
             refused (check_quota pol u m now) = false).
Proof. exact isolation_all. Qed.
Print Assumptions C19_isolation.

(* the allowance is counted in whole MiB: traffic up to 1 MiB - 1 byte above it is still admitted *)
Theorem C19_quota_whole_mib_slack :
  exists q up down now, days_ok q /\ window_total q up down now = q_mb q * C19_QuotaBytesPerMegabyte + (C19_QuotaBytesPerMegabyte - 1) /\
                        check_quotas [q] up down now = QAllow.
Proof. exact quota_whole_mib_slack. Qed.
Print Assumptions C19_quota_whole_mib_slack.

(* the constants the model is instantiated with are the documented ones *)
Theorem C19_consts_ok :
  C19_RollUpInterval = 1000 /\
  C19_RollUpToSecondNs = 2 * C19_SecondNs /\ C19_RollUpSecondToMinuteNs = 120 * C19_SecondNs /\
  C19_RollUpMinuteToHourNs = 120 * C19_MinuteNs /\ C19_RollUpHourToDayNs = 8 * C19_DayNs /\
  7 * C19_DayNs + C19_DayNs <= C19_RollUpHourToDayNs /\
  [C19_LabelNoRollUp; C19_LabelSecond; C19_LabelMinute; C19_LabelHour; C19_LabelDay] = [0; 1; 2; 3; 4] /\
  C19_QuotaBytesPerMegabyte = 2 ^ 20 /\ C19_QuotaHoursPerDay * C19_HourNs = C19_DayNs.
Proof. exact consts_ok. Qed.
Print Assumptions C19_consts_ok.

(* the validator's bound (regenerated from the real ValidateServerConfigSingleUser) lies inside the range where the
   window arithmetic does not wrap *)
Theorem C19_max_quota_days_ok : 0 < C19_MaxQuotaDays <= max_days.
Proof. exact max_quota_days_ok. Qed.
Print Assumptions C19_max_quota_days_ok.

(* every user record that passes validation: checkQuota never panics, for every counter state and every instant *)
Theorem C19_validated_quota_never_panics : forall pol u m now,
  (forall p, pol = Some p -> validate_user_quotas (p_quotas p) = true) ->
  check_quota pol u m now <> QPanic.
Proof. exact validated_quota_never_panics. Qed.
Print Assumptions C19_validated_quota_never_panics.

(* the refusal criterion, with the validator as the premise *)
Theorem C19_quota_refuse_iff_validated : forall pol u m now,
  (forall p, pol = Some p -> validate_user_quotas (p_quotas p) = true) ->
  (refused (check_quota pol u m now) = true <->
   exists p up down q, pol = Some p /\ p_name p = u /\ lookup u m = Some (up, down) /\
                       In q (p_quotas p) /\ exceeded q up down now).
Proof. exact quota_refuse_iff_validated. Qed.
Print Assumptions C19_quota_refuse_iff_validated.

(* before the fix (no upper bound on days) a record could make checkQuota panic: such records are now rejected *)
Theorem C19_unvalidated_days_overflow_refuted_before_fix :
  exists p u m now, validate_user_quotas (p_quotas p) = false /\ check_quota (Some p) u m now = QPanic.
Proof. exact unvalidated_days_overflow. Qed.
Print Assumptions C19_unvalidated_days_overflow_refuted_before_fix.

(* on a history ordered in time DeltaBetween(t1, t2) is exactly the sum of the deltas with t1 < ts <= t2 *)
Theorem C19_window_is_range_sum : forall h t1 t2, sorted h -> t1 <= t2 ->
  delta_between h t1 t2 = hsum (filter (in_window t1 t2) h).
Proof. exact window_is_range_sum. Qed.
Print Assumptions C19_window_is_range_sum.

(* ... and the order is needed: the binary searches of DeltaBetween miss entries of an unordered history *)
Theorem C19_window_is_range_sum_unsorted_refuted :
  exists h t1 t2, t1 <= t2 /\ delta_between h t1 t2 <> hsum (filter (in_window t1 t2) h).
Proof. exact window_unsorted_differs. Qed.
Print Assumptions C19_window_is_range_sum_unsorted_refuted.

(* Session.Read with its leftover buffer: for any sequence of Read calls (any buffer sizes) the returned slices are the
   front of the stream and the bytes counted against the user are exactly the sum of the returned lengths *)
Theorem C19_reads_count : forall wants st,
  let '(outs, st') := reads st wants in
  concat outs ++ pending st' = pending st /\
  r_counted st' = r_counted st + Z.of_nat (length (concat outs)).
Proof. exact reads_count. Qed.
Print Assumptions C19_reads_count.

(* however the application cuts the stream into reads, once it is drained the same total has been counted *)
Theorem C19_count_is_partition_independent : forall st wants1 wants2,
  pending (snd (reads st wants1)) = [] -> pending (snd (reads st wants2)) = [] ->
  r_counted (snd (reads st wants1)) = r_counted (snd (reads st wants2)) /\
  r_counted (snd (reads st wants1)) = r_counted st + Z.of_nat (length (pending st)) /\
  concat (fst (reads st wants1)) = pending st /\ concat (fst (reads st wants2)) = pending st.
Proof. exact count_is_partition_independent. Qed.
Print Assumptions C19_count_is_partition_independent.

(* the statement discriminates: a Read that serves the leftover on an early-returning fast path violates it *)
Theorem C19_leftover_fastpath_refuted :
  exists st wants1 wants2,
    pending (snd (reads_fastpath st wants1)) = [] /\ pending (snd (reads_fastpath st wants2)) = [] /\
    concat (fst (reads_fastpath st wants1)) = concat (fst (reads_fastpath st wants2)) /\
    r_counted (snd (reads_fastpath st wants1)) <> r_counted (snd (reads_fastpath st wants2)).
Proof. exact fastpath_not_partition_independent. Qed.
Print Assumptions C19_leftover_fastpath_refuted.

(* over any history of reloads and traffic: the policy handed to the next session of u, and the decision taken on it,
   are those of the configuration of the most recent SetUsers *)
Theorem C19_reload_takes_effect : forall r0 pre cfg post u m now,
  Forall is_traffic post ->
  policy_in_force (run_registry r0 (pre ++ EvReload cfg :: post)) u =
    option_map (fun x => mkP (ur_name x) (ur_quotas x)) (find_user u cfg) /\
  decision (run_registry r0 (pre ++ EvReload cfg :: post)) u m now =
    check_quota (option_map (fun x => mkP (ur_name x) (ur_quotas x)) (find_user u cfg)) u m now.
Proof. exact reload_takes_effect. Qed.
Print Assumptions C19_reload_takes_effect.

Theorem C19_reload_refuse_iff : forall r0 pre cfg post u m now,
  Forall is_traffic post ->
  (forall x, find_user u cfg = Some x -> validate_user_quotas (ur_quotas x) = true) ->
  (refused (decision (run_registry r0 (pre ++ EvReload cfg :: post)) u m now) = true <->
   exists x up down q, find_user u cfg = Some x /\ lookup u m = Some (up, down) /\
                       In q (ur_quotas x) /\ exceeded q up down now).
Proof. exact reload_refuse_iff. Qed.
Print Assumptions C19_reload_refuse_iff.

(* the statement discriminates: keeping the generation when ids, names and credentials agree drops a quota-only reload *)
Theorem C19_reload_identity_shortcut_refuted :
  exists cfg1 cfg2 u,
    policy_in_force (set_users_shortcut (set_users_shortcut None cfg1) cfg2) u <>
    option_map (fun x => mkP (ur_name x) (ur_quotas x)) (find_user u cfg2).
Proof. exact shortcut_drops_quota_reload. Qed.
Print Assumptions C19_reload_identity_shortcut_refuted.
