(* C05 - without a credential the server stays silent and creates nothing.
   Statements only; each is closed by [exact] of a lemma of proofs/ServerFrontProofs.v about the model
   model/ServerFront.v (the server's first-segment logic on TCP, its per-datagram logic on UDP).

   Reading guide.  Every theorem is quantified over
     key, open_hdr, open_body_*, le_ok, le_decode   any cipher (AEAD and low-entropy codec as functions),
     cands                                          any candidate order of user discovery,
     sig_of, rcache, rc_dup                         any replay-cache implementation,
     keys                                           the registered users' keys,
     produced                                       the set of 72-byte headers that holders of registered keys made,
   subject to the two premises
     cands_registered  : discovery only tries registered keys,
     open_forged_none  : a header outside [produced] opens under no registered key (INT-CTXT of the AEAD;
                         a computational assumption - it stays a visible hypothesis).
   "The party holds no credential" is: the first 72 bytes it sends are not in [produced].
   Non-vacuity: proofs/ServerFrontProofs.v, Module Toy, instantiates every hypothesis and computes
   (Examples ex_tcp_genuine_accepted, ex_tcp_all_flips_silent, ex_tcp_all_prefixes_blocked, ex_udp_history, ...). *)
From Coq Require Import ZArith NArith List.
(* model/Discover.v (C07) has names of its own (udp_run, usession, ...): imported first, the front door's names win *)
From M Require Import gen.Consts model.Discover proofs.DiscoverProofs.
From M Require Import model.ServerFront proofs.ServerFrontProofs proofs.ServerFrontDiscoverInst.
From M Require Import model.UserTable proofs.UserTableProofs.
Import ListNotations.
Open Scope Z_scope.

(* TCP: for EVERY byte string sent on a fresh connection whose first 72 bytes no credential holder produced
   (any length, also shorter than a header), at any instant, whatever the replay cache answers:
   no Write, no session, nothing for Accept, no receive cipher and therefore no send cipher - ever - on this
   connection; the step ends blocked in ReadFull, or in the read-only drain (CRYPTO / REPLAY error). *)
Theorem C05_silent_tcp :
  forall (key : Type) (open_hdr : key -> bytes -> option bytes) (open_body_tcp : key -> bytes -> bytes -> option bytes)
         (le_ok : bytes -> bool) (le_decode : bytes -> bytes -> option bytes) (cands : bytes -> addr -> list key)
         (sig_of : bytes -> N) (rcache : Type) (rc_dup : rcache -> N -> addr -> Z -> bool * rcache)
         (keys : list key) (produced : bytes -> Prop),
  (forall (h : bytes) (src : addr) (k : key), In k (cands h src) -> In k keys) ->
  (forall h : bytes, ~ produced h -> forall k : key, In k keys -> open_hdr k h = None) ->
  forall (rc : rcache) (src : addr) (input : bytes) (now : Z),
  ~ produced (firstn hdr_len input) ->
  let r := fst (tcp_front key open_hdr open_body_tcp le_ok le_decode cands sig_of rcache rc_dup rc src input now) in
  (t_out r = [] /\ t_created r = [] /\ t_app r = [] /\ t_recv r = None /\ send_cipher key (t_recv r) = None) /\
  (t_verdict r = V_blocked \/ t_verdict r = V_crypto \/ t_verdict r = V_replay).
Proof. exact c05_silent_tcp. Qed.
Print Assumptions C05_silent_tcp.

(* corollary: every strict prefix of the 72-byte header of anything (a genuine first segment included) blocks in
   ReadFull and ends without output; not even the replay cache is touched.  No hypothesis at all. *)
Theorem C05_truncated_prefix_tcp :
  forall (key : Type) (open_hdr : key -> bytes -> option bytes) (open_body_tcp : key -> bytes -> bytes -> option bytes)
         (le_ok : bytes -> bool) (le_decode : bytes -> bytes -> option bytes) (cands : bytes -> addr -> list key)
         (sig_of : bytes -> N) (rcache : Type) (rc_dup : rcache -> N -> addr -> Z -> bool * rcache)
         (rc : rcache) (src : addr) (genuine : bytes) (n : nat) (now : Z),
  (n < hdr_len)%nat ->
  let r := tcp_front key open_hdr open_body_tcp le_ok le_decode cands sig_of rcache rc_dup rc src (firstn n genuine) now in
  tcp_silent key (fst r) /\ t_verdict (fst r) = V_blocked /\ snd r = rc.
Proof. exact c05_prefix_tcp. Qed.
Print Assumptions C05_truncated_prefix_tcp.

(* corollary: a 72-byte header with any one of its 576 bits flipped (nonce, ciphertext or tag), followed by
   anything.  The flipped string differs from the original; unless it happens to be another header that a
   credential holder produced, it is forged and the server stays silent. *)
Theorem C05_bit_flip_tcp :
  forall (key : Type) (open_hdr : key -> bytes -> option bytes) (open_body_tcp : key -> bytes -> bytes -> option bytes)
         (le_ok : bytes -> bool) (le_decode : bytes -> bytes -> option bytes) (cands : bytes -> addr -> list key)
         (sig_of : bytes -> N) (rcache : Type) (rc_dup : rcache -> N -> addr -> Z -> bool * rcache)
         (keys : list key) (produced : bytes -> Prop),
  (forall (h : bytes) (src : addr) (k : key), In k (cands h src) -> In k keys) ->
  (forall h : bytes, ~ produced h -> forall k : key, In k keys -> open_hdr k h = None) ->
  forall (rc : rcache) (src : addr) (hdr rest : bytes) (i : nat) (now : Z),
  length hdr = hdr_len -> (i < 8 * hdr_len)%nat ->
  ~ produced (flip_bit i hdr) ->
  let r := fst (tcp_front key open_hdr open_body_tcp le_ok le_decode cands sig_of rcache rc_dup rc src (flip_bit i hdr ++ rest) now) in
  flip_bit i hdr <> hdr /\ tcp_silent key r /\ (t_verdict r = V_crypto \/ t_verdict r = V_replay).
Proof. exact c05_bitflip_tcp. Qed.
Print Assumptions C05_bit_flip_tcp.

(* ... and when [hdr] is the only header the credential holders made, every flip is outside [produced] *)
Theorem C05_bit_flip_is_forged :
  forall (produced : bytes -> Prop) (hdr : bytes) (i : nat),
  (forall x, produced x -> x = hdr) -> (i < 8 * length hdr)%nat -> ~ produced (flip_bit i hdr).
Proof. exact flip_not_produced. Qed.
Print Assumptions C05_bit_flip_is_forged.

(* the mechanism, stated for ALL inputs: the first-segment step never writes; a receive cipher (the only source
   of a send cipher, maybeInitSendBlockCipher) exists afterwards only if a registered key opened the header *)
Theorem C05_send_cipher_needs_authentication :
  forall (key : Type) (open_hdr : key -> bytes -> option bytes) (open_body_tcp : key -> bytes -> bytes -> option bytes)
         (le_ok : bytes -> bool) (le_decode : bytes -> bytes -> option bytes) (cands : bytes -> addr -> list key)
         (sig_of : bytes -> N) (rcache : Type) (rc_dup : rcache -> N -> addr -> Z -> bool * rcache)
         (keys : list key),
  (forall (h : bytes) (src : addr) (k : key), In k (cands h src) -> In k keys) ->
  forall (rc : rcache) (src : addr) (input : bytes) (now : Z) (k : key),
  t_recv (fst (tcp_front key open_hdr open_body_tcp le_ok le_decode cands sig_of rcache rc_dup rc src input now)) = Some k ->
  In k keys /\ (exists m : bytes, open_hdr k (firstn hdr_len input) = Some m).
Proof. exact tcp_recv_authenticated. Qed.
Print Assumptions C05_send_cipher_needs_authentication.

(* ... and a session is created only by a header that a registered key opens, that the replay cache has not
   flagged, and whose metadata is an openSessionRequest (timestamp within one minute, payload length within
   MaxSessionOpenPayload) with a non-zero session id: every check of validateNewServerSessionSegment *)
Theorem C05_session_only_by_authenticated_open_request :
  forall (key : Type) (open_hdr : key -> bytes -> option bytes) (open_body_tcp : key -> bytes -> bytes -> option bytes)
         (le_ok : bytes -> bool) (le_decode : bytes -> bytes -> option bytes) (cands : bytes -> addr -> list key)
         (sig_of : bytes -> N) (rcache : Type) (rc_dup : rcache -> N -> addr -> Z -> bool * rcache)
         (keys : list key),
  (forall (h : bytes) (src : addr) (k : key), In k (cands h src) -> In k keys) ->
  forall (rc : rcache) (src : addr) (input : bytes) (now : Z),
  t_created (fst (tcp_front key open_hdr open_body_tcp le_ok le_decode cands sig_of rcache rc_dup rc src input now)) <> [] ->
  exists (hdr rest : bytes) (k : key) (m : bytes) (p sid plen slen : Z),
    take hdr_len input = Some (hdr, rest) /\
    fst (rc_dup rc (sig_of (firstn sig_len hdr)) [] now) = false /\
    In k keys /\ open_hdr k hdr = Some m /\
    parse_meta le_ok now m = M_session p sid plen slen /\
    p = C05_ProtoOpenSessionRequest /\ sid <> 0 /\
    t_verdict (fst (tcp_front key open_hdr open_body_tcp le_ok le_decode cands sig_of rcache rc_dup rc src input now)) = V_session.
Proof. exact tcp_created_inv. Qed.
Print Assumptions C05_session_only_by_authenticated_open_request.

(* UDP: every history at the server socket - datagrams from any source addresses (a prober may even use the
   address of a genuine client), of any length, interleaved arbitrarily with any other traffic and with session
   clean-ups - starting from any state whose sessions hold registered keys: each datagram marked as a probe
   (its 72-byte header was not produced by a credential holder) draws no datagram from the server, creates no
   session, delivers nothing to any session; it is dropped as too short or undecryptable. *)
Theorem C05_silent_udp :
  forall (key : Type) (user_of : key -> N) (open_hdr : key -> bytes -> option bytes)
         (open_body_udp : key -> bytes -> bytes -> option bytes) (le_ok : bytes -> bool)
         (le_decode : bytes -> bytes -> option bytes) (cands : bytes -> addr -> list key) (sig_of : bytes -> N)
         (rcache : Type) (rc_dup : rcache -> N -> addr -> Z -> bool * rcache) (keys : list key) (produced : bytes -> Prop),
  (forall (h : bytes) (src : addr) (k : key), In k (cands h src) -> In k keys) ->
  (forall h : bytes, ~ produced h -> forall k : key, In k keys -> open_hdr k h = None) ->
  forall (probe : event -> bool) (evs : list event) (st : ustate key rcache),
  (forall s, In s (u_sessions st) -> In (us_key s) keys) ->
  (forall e : event, In e evs -> probe e = true ->
     match e with Dgram d src now => ~ produced (firstn hdr_len d) | Clean _ => False end) ->
  forall (e : event) (r : udp_result key),
  In (e, r) (fst (udp_run key user_of open_hdr open_body_udp le_ok le_decode cands sig_of rcache rc_dup st evs)) ->
  probe e = true ->
  (u_out r = [] /\ u_created r = [] /\ u_delivered r = []) /\ (u_verdict r = V_short \/ u_verdict r = V_undecryptable).
Proof. exact c05_silent_udp. Qed.
Print Assumptions C05_silent_udp.

(* UDP non-interference: what the server does for the other (non-probe) events - every reply, session and
   delivery - and the final session table are exactly what they would be had the probes never been sent.
   Premises about the replay cache: it has no false positives ([rc_nfp], proved for pkg/replay in props/C06.v),
   and [owned]: the first 16 bytes of a non-probe datagram are never presented from another source address
   (a prober cannot predict a fresh random nonce; copying one is a replay, C06). *)
Theorem C05_noninterference_udp :
  forall (key : Type) (user_of : key -> N) (open_hdr : key -> bytes -> option bytes)
         (open_body_udp : key -> bytes -> bytes -> option bytes) (le_ok : bytes -> bool)
         (le_decode : bytes -> bytes -> option bytes) (cands : bytes -> addr -> list key) (sig_of : bytes -> N)
         (rcache : Type) (rc_dup : rcache -> N -> addr -> Z -> bool * rcache) (keys : list key) (produced : bytes -> Prop),
  (forall (h : bytes) (src : addr) (k : key), In k (cands h src) -> In k keys) ->
  (forall h : bytes, ~ produced h -> forall k : key, In k keys -> open_hdr k h = None) ->
  forall rc0 : rcache,
  (forall (h : list rc_op) (s : N) (t : addr) (now : Z),
     fst (rc_dup (rc_final rcache rc_dup rc0 h) s t now) = true ->
     exists (t' : addr) (now' : Z), In (s, t', now') h /\ (t' = [] \/ t = [] \/ t' <> t)) ->
  forall (probe : event -> bool) (evs : list event) (h0 : list rc_op) (ss : list (usession key)),
  (forall s, In s ss -> In (us_key s) keys) ->
  (forall e : event, In e evs -> probe e = true ->
     match e with Dgram d src now => ~ produced (firstn hdr_len d) | Clean _ => False end) ->
  (forall e o o', In e evs -> probe e = false -> In o (event_ops sig_of e) -> In o' (h0 ++ events_ops sig_of evs) ->
     fst (fst o') = fst (fst o) -> snd (fst o') = snd (fst o) /\ snd (fst o) <> []) ->
  let st := mkU key rcache (rc_final rcache rc_dup rc0 h0) ss in
  let run := udp_run key user_of open_hdr open_body_udp le_ok le_decode cands sig_of rcache rc_dup st in
  filter (fun er : event * udp_result key => negb (probe (fst er))) (fst (run evs))
    = fst (run (filter (fun e => negb (probe e)) evs)) /\
  u_sessions (snd (run evs)) = u_sessions (snd (run (filter (fun e => negb (probe e)) evs))).
Proof. exact c05_noninterference_udp. Qed.
Print Assumptions C05_noninterference_udp.

(* the hypotheses above are satisfiable and the model is not silent by construction: the toy instance accepts a
   genuine first segment, and stays silent on all 576 bit flips of its header and on all 72 strict prefixes *)
Theorem C05_nonvacuous :
  (forall h src k, In k (Toy.tcands h src) -> In k Toy.tkeys) /\
  (forall h, ~ Toy.tproduced h -> forall k, In k Toy.tkeys -> Toy.topen k h = None) /\
  (forall i, In i (seq 0 576) -> ~ Toy.tproduced (flip_bit i Toy.hdr_open)) /\
  (let r := fst (tcp_front Toy.tkey Toy.topen Toy.tbody (fun _ => true) (fun _ w => Some w) Toy.tcands Toy.tsig
                           Toy.tcache Toy.tdup [] Toy.A Toy.first_segment Toy.now0) in
   t_created r = [7] /\ t_app r = [(7, [65; 66; 67]%N)] /\ t_verdict r = V_session /\ t_recv r = Some 1%N).
Proof.
  exact (conj Toy.toy_cands_registered (conj Toy.toy_open_forged_none (conj Toy.ex_flips_not_produced Toy.ex_tcp_genuine_accepted))).
Qed.
Print Assumptions C05_nonvacuous.

(* ------------------------------------------------------------------------------------------------------------
   The front door COMPOSED WITH USER DISCOVERY (model/Discover.v, property C07): premise [cands_registered] above
   is no longer assumed.  users : list U is the published generation of registered users (ids 1..length users,
   as buildState assigns them), key_of u the cipher key of user u, open_k the AEAD opening of the 72-byte header,
   hint h u = CheckUserFromHint(u.name, nonce of h) (any function: collisions allowed), cached src = whatever the
   source-address cache returns (any list), mandatory = the hint-mandatory switch.  A cipher of the front door is
   a user id:  d_open i h = open_k (key_of u) h for the user with id i;  the candidates are what tryState
   attributes the header to (the two unfolding theorems below say exactly this).
   Remaining premises: INT-CTXT ([int_ctxt], about the users' real keys); on UDP the state invariant that existing
   sessions hold ids of registered users.  The user table is one fixed generation per statement. *)

Theorem C05_discover_candidates_are_try_state :
  forall (U K : Type) (users : list U) (key_of : U -> K) (open_k : K -> bytes -> option bytes)
         (hint : bytes -> U -> bool) (cached : addr -> list N) (mandatory : bool) (h : bytes) (src : addr),
  d_cands users key_of open_k hint cached mandatory h src =
  match r_hit (try_state U (hint h) (fun u => match open_k (key_of u) h with Some _ => true | None => false end)
                         users (cached src) mandatory) with
  | Some (i, _, _) => [i]
  | None => []
  end.
Proof. exact @d_cands_unfold. Qed.
Print Assumptions C05_discover_candidates_are_try_state.

Theorem C05_discover_cipher_of_id :
  forall (U K : Type) (users : list U) (key_of : U -> K) (open_k : K -> bytes -> option bytes) (i : N) (h : bytes),
  d_open users key_of open_k i h = match user_by_id U users i with Some u => open_k (key_of u) h | None => None end.
Proof. exact @d_open_unfold. Qed.
Print Assumptions C05_discover_cipher_of_id.

(* H1 as a theorem: the candidate discovery hands to the front door, and every user tryState tries on the way,
   is a registered id (from C07_attr_sound / C07_attr_tried_registered) *)
Theorem C05_cands_registered_proved :
  forall (U K : Type) (users : list U) (key_of : U -> K) (open_k : K -> bytes -> option bytes) (hint : bytes -> U -> bool)
         (cached : addr -> list N) (mandatory : bool) (h : bytes) (src : addr) (i : N),
  (In i (d_cands users key_of open_k hint cached mandatory h src) -> In i (reg_ids users)) /\
  (In i (r_tried (d_try users key_of open_k hint cached mandatory h src)) -> In i (reg_ids users)).
Proof.
  exact (fun U K users key_of open_k hint cached mandatory h src i =>
           conj (d_cands_registered U K users key_of open_k hint cached mandatory h src i)
                (d_tried_registered U K users key_of open_k hint cached mandatory h src i)).
Qed.
Print Assumptions C05_cands_registered_proved.

(* C05_silent_tcp with discovery inside: the only premise is INT-CTXT *)
Theorem C05_silent_tcp_discover :
  forall (U K : Type) (users : list U) (key_of : U -> K) (open_k : K -> bytes -> option bytes)
         (body_tcp : K -> bytes -> bytes -> option bytes) (hint : bytes -> U -> bool) (cached : addr -> list N)
         (mandatory : bool) (le_ok : bytes -> bool) (le_decode : bytes -> bytes -> option bytes) (sig_of : bytes -> N)
         (rcache : Type) (rc_dup : rcache -> N -> addr -> Z -> bool * rcache) (produced : bytes -> Prop),
  (forall h : bytes, ~ produced h -> forall u : U, In u users -> open_k (key_of u) h = None) ->
  forall (rc : rcache) (src : addr) (input : bytes) (now : Z),
  ~ produced (firstn hdr_len input) ->
  let r := fst (tcp_front N (d_open users key_of open_k) (d_body users key_of body_tcp) le_ok le_decode
                          (d_cands users key_of open_k hint cached mandatory) sig_of rcache rc_dup rc src input now) in
  (t_out r = [] /\ t_created r = [] /\ t_app r = [] /\ t_recv r = None /\ send_cipher N (t_recv r) = None) /\
  (t_verdict r = V_blocked \/ t_verdict r = V_crypto \/ t_verdict r = V_replay).
Proof. exact c05_silent_tcp_discover. Qed.
Print Assumptions C05_silent_tcp_discover.

(* C05_silent_udp with discovery inside *)
Theorem C05_silent_udp_discover :
  forall (U K : Type) (users : list U) (key_of : U -> K) (open_k : K -> bytes -> option bytes)
         (body_udp : K -> bytes -> bytes -> option bytes) (hint : bytes -> U -> bool) (cached : addr -> list N)
         (mandatory : bool) (le_ok : bytes -> bool) (le_decode : bytes -> bytes -> option bytes) (sig_of : bytes -> N)
         (rcache : Type) (rc_dup : rcache -> N -> addr -> Z -> bool * rcache) (produced : bytes -> Prop),
  (forall h : bytes, ~ produced h -> forall u : U, In u users -> open_k (key_of u) h = None) ->
  forall (probe : event -> bool) (evs : list event) (st : ustate N rcache),
  (forall s : usession N, In s (u_sessions st) -> In (us_key s) (reg_ids users)) ->
  (forall e : event, In e evs -> probe e = true ->
     match e with Dgram d _ _ => ~ produced (firstn hdr_len d) | Clean _ => False end) ->
  forall (e : event) (r : udp_result N),
  In (e, r) (fst (udp_run N (fun i => i) (d_open users key_of open_k) (d_body users key_of body_udp) le_ok le_decode
                          (d_cands users key_of open_k hint cached mandatory) sig_of rcache rc_dup st evs)) ->
  probe e = true ->
  (u_out r = [] /\ u_created r = [] /\ u_delivered r = []) /\ (u_verdict r = V_short \/ u_verdict r = V_undecryptable).
Proof. exact c05_silent_udp_discover. Qed.
Print Assumptions C05_silent_udp_discover.

(* the link to C07: when the first segment of a connection DOES create a session, the receive cipher of the
   connection (and with it the session's user) is the user i that tryState attributed the header to - registered
   under id i in this generation, its key opens the header, it matches the hint whenever hints are mandatory, and
   whenever some registered hint-matching user's key opens the header (C07_attr_sound, C07_attr_hint_pref).
   No cryptographic premise. *)
Theorem C05_attribution :
  forall (U K : Type) (users : list U) (key_of : U -> K) (open_k : K -> bytes -> option bytes)
         (body_tcp : K -> bytes -> bytes -> option bytes) (hint : bytes -> U -> bool) (cached : addr -> list N)
         (mandatory : bool) (le_ok : bytes -> bool) (le_decode : bytes -> bytes -> option bytes) (sig_of : bytes -> N)
         (rcache : Type) (rc_dup : rcache -> N -> addr -> Z -> bool * rcache) (rc : rcache) (src : addr)
         (input : bytes) (now : Z),
  let front := tcp_front N (d_open users key_of open_k) (d_body users key_of body_tcp) le_ok le_decode
                         (d_cands users key_of open_k hint cached mandatory) sig_of rcache rc_dup in
  t_created (fst (front rc src input now)) <> [] ->
  let h := firstn hdr_len input in
  exists (i : N) (u : U) (o : origin) (m : bytes),
    t_recv (fst (front rc src input now)) = Some i /\
    r_hit (try_state U (hint h) (d_auth key_of open_k h) users (cached src) mandatory) = Some (i, u, o) /\
    user_by_id U users i = Some u /\ In u users /\
    open_k (key_of u) h = Some m /\
    hint h u = origin_hint o /\
    (mandatory = true -> hint h u = true) /\
    ((exists (j : N) (v : U), user_by_id U users j = Some v /\ hint h v = true /\ open_k (key_of v) h <> None) ->
     hint h u = true).
Proof. exact c05_attribution. Qed.
Print Assumptions C05_attribution.

(* ------------------------------------------------------------------------------------------------------------
   MANAGEMENT EVENTS: which credentials are registered is not a constant.  model/UserTable.v:
     compile_users hashpw es   the users buildState compiles from the user map es (admission rule + order + ids),
     published hashpw init h   the generation in force after the server was started with init and the operator
                               published the lists h (oldest first): Registry.SetUsers always replaces - the LAST
                               list decides, the empty list included.
   hashpw = cipher.HashPassword (any function).  The driver compares compile_users of the last published list
   with the table of the real registry after every SetServerUsers. *)

(* SetUsers: the last publication decides; an empty list leaves NO user *)
Theorem C05_published_is_last :
  forall (hashpw : bytes -> bytes -> bytes) (init : list entry) (h : list (list entry)) (l : list entry),
  (published hashpw init (h ++ [l]) = compile_users hashpw l) /\
  (published hashpw init (h ++ [nil]) = nil) /\
  (published hashpw init nil = compile_users hashpw init).
Proof.
  exact (fun hashpw init h l => conj (published_last hashpw init h l)
                                     (conj (published_empty_list hashpw init h) (published_none hashpw init))).
Qed.
Print Assumptions C05_published_is_last.

(* the admission rule, as a fact about every user of every compiled generation: it stems from a present record of the
   map, carries that record's non-empty name of at most MaxUserNameLen bytes which no other entry carries, and its
   credential is a SECRET of that record: the hexadecimal hashed password of exactly CredentialLen bytes, or else
   (hashed password empty) hashpw of a NON-EMPTY password *)
Theorem C05_admission_rule :
  forall (hashpw : bytes -> bytes -> bytes) (es : list entry) (c : cuser),
  In c (compile_users hashpw es) ->
  exists e : entry,
    In e es /\ e_present e = true /\ c_name c = e_name e /\ e_name e <> [] /\
    (length (e_name e) <= max_name_len)%nat /\ (count_name (e_name e) es <= 1)%nat /\
    ((e_hashed e <> [] /\ hex_decode (e_hashed e) = Some (c_cred c) /\ length (c_cred c) = cred_len) \/
     (e_hashed e = [] /\ e_password e <> [] /\ c_cred c = hashpw (e_password e) (e_name e))).
Proof. exact compiled_has_secret. Qed.
Print Assumptions C05_admission_rule.

(* an entry without a secret contributes no credential: if no entry named n has a password or a hashed password,
   no registered user is named n - knowing a NAME (which the user hint in every nonce reveals) gives nothing *)
Theorem C05_no_secret_no_credential :
  forall (hashpw : bytes -> bytes -> bytes) (es : list entry) (n : bytes),
  (forall e : entry, In e es -> name_of e = n -> e_password e = [] /\ e_hashed e = []) ->
  forall c : cuser, In c (compile_users hashpw es) -> c_name c <> n.
Proof. exact no_secret_no_credential. Qed.
Print Assumptions C05_no_secret_no_credential.

(* entries that share a name register nobody under that name, whatever their passwords *)
Theorem C05_duplicate_names_not_registered :
  forall (hashpw : bytes -> bytes -> bytes) (es : list entry) (e1 e2 : entry),
  In e1 es -> In e2 es -> e1 <> e2 -> name_of e1 = name_of e2 ->
  forall c : cuser, In c (compile_users hashpw es) -> c_name c <> name_of e1.
Proof. exact duplicate_names_skipped. Qed.
Print Assumptions C05_duplicate_names_not_registered.

(* C05_silent_after_reload.  kdf: credential -> cipher key of the current slot; seal k n m: the 72-byte header made with
   key k.  Premise: key separation of the AEAD (what one key sealed, no other key opens).  For EVERY start list and
   EVERY reload history: a first segment whose header was sealed with a credential whose key is not the key of a user
   of the generation published LAST - removed one reload ago or ten, never registered, registered only under another
   password - meets exactly the silence of C05_silent_tcp.  (TCP: a fresh connection.) *)
Theorem C05_silent_after_reload :
  forall (K : Type) (hashpw : bytes -> bytes -> bytes) (kdf : bytes -> K) (seal : K -> bytes -> bytes -> bytes)
         (open_k : K -> bytes -> option bytes) (body_tcp : K -> bytes -> bytes -> option bytes) (hint : bytes -> cuser -> bool)
         (cached : addr -> list N) (mandatory : bool) (le_ok : bytes -> bool) (le_decode : bytes -> bytes -> option bytes)
         (sig_of : bytes -> N) (rcache : Type) (rc_dup : rcache -> N -> addr -> Z -> bool * rcache),
  (forall (k k' : K) (n m : bytes), k' <> k -> open_k k' (seal k n m) = None) ->
  forall (init : list entry) (h : list (list entry)) (rc : rcache) (src : addr) (input : bytes) (now : Z),
  (exists cred n m : bytes,
     firstn hdr_len input = seal (kdf cred) n m /\
     forall u : cuser, In u (published hashpw init h) -> kdf (c_cred u) <> kdf cred) ->
  let users := published hashpw init h in
  let key_of := fun u : cuser => kdf (c_cred u) in
  let r := fst (tcp_front N (d_open users key_of open_k) (d_body users key_of body_tcp) le_ok le_decode
                          (d_cands users key_of open_k hint cached mandatory) sig_of rcache rc_dup rc src input now) in
  (t_out r = [] /\ t_created r = [] /\ t_app r = [] /\ t_recv r = None /\ send_cipher N (t_recv r) = None) /\
  (t_verdict r = V_blocked \/ t_verdict r = V_crypto \/ t_verdict r = V_replay).
Proof. exact c05_silent_after_reload_tcp. Qed.
Print Assumptions C05_silent_after_reload.

(* the same for UDP histories after the reload.  The premise about the start state - the existing sessions belong to
   users of the generation in force - is where a user removed WHILE it has a live session falls outside: the ciphers
   of existing sessions are tried before discovery and do not consult the registry (the driver reports what the real
   server does in that case). *)
Theorem C05_silent_after_reload_udp :
  forall (K : Type) (hashpw : bytes -> bytes -> bytes) (kdf : bytes -> K) (seal : K -> bytes -> bytes -> bytes)
         (open_k : K -> bytes -> option bytes) (body_udp : K -> bytes -> bytes -> option bytes) (hint : bytes -> cuser -> bool)
         (cached : addr -> list N) (mandatory : bool) (le_ok : bytes -> bool) (le_decode : bytes -> bytes -> option bytes)
         (sig_of : bytes -> N) (rcache : Type) (rc_dup : rcache -> N -> addr -> Z -> bool * rcache),
  (forall (k k' : K) (n m : bytes), k' <> k -> open_k k' (seal k n m) = None) ->
  forall (init : list entry) (h : list (list entry)) (probe : event -> bool) (evs : list event) (st : ustate N rcache),
  (forall s : usession N, In s (u_sessions st) -> In (us_key s) (reg_ids (published hashpw init h))) ->
  (forall e : event, In e evs -> probe e = true ->
     match e with
     | Dgram d _ _ => exists cred n m : bytes, firstn hdr_len d = seal (kdf cred) n m /\
                                           forall u : cuser, In u (published hashpw init h) -> kdf (c_cred u) <> kdf cred
     | Clean _ => False
     end) ->
  forall (e : event) (r : udp_result N),
  In (e, r) (fst (udp_run N (fun i : N => i) (d_open (published hashpw init h) (fun u : cuser => kdf (c_cred u)) open_k)
                          (d_body (published hashpw init h) (fun u : cuser => kdf (c_cred u)) body_udp) le_ok le_decode
                          (d_cands (published hashpw init h) (fun u : cuser => kdf (c_cred u)) open_k hint cached mandatory)
                          sig_of rcache rc_dup st evs)) ->
  probe e = true ->
  (u_out r = [] /\ u_created r = [] /\ u_delivered r = []) /\ (u_verdict r = V_short \/ u_verdict r = V_undecryptable).
Proof. exact c05_silent_after_reload_udp. Qed.
Print Assumptions C05_silent_after_reload_udp.
