(* C08 — clocks within one minute always agree on keys; stale segments are refused.
   Statements only; each is closed by [exact] of a lemma of proofs/KeyTimeProofs.v. *)
From Coq Require Import ZArith List.
From M Require Import gen.Consts model.KeyTime proofs.KeyTimeProofs.
Open Scope Z_scope.

(* |skew| <= 60 s: common key and mutually accepted timestamps, at every instant of the uint32-minute era *)
Theorem C08_handshake_within_60s : forall t d : Z,
  era t -> era (t + d) -> Z.abs d <= 60 * NS ->
  handshake_ok t (t + d) /\ handshake_ok (t + d) t.
Proof. exact c08_handshake. Qed.
Print Assumptions C08_handshake_within_60s.

(* a key derived up to 120 s away (UDP underlay reused for KeyRefreshInterval/2) is still among the receiver's three *)
Theorem C08_key_within_120s : forall t d : Z,
  Z.abs d <= 120 * NS -> In (epoch KeyRefreshInterval_ns t) (slots KeyRefreshInterval_ns (t + d)).
Proof. exact skew_common_key. Qed.
Print Assumptions C08_key_within_120s.

(* >= 2 minutes: timestamp refused; >= 4 minutes: no common key *)
Theorem C08_stale_refused : forall t d : Z,
  era t -> era (t + d) ->
  (120 * NS <= Z.abs d -> timestamp_ok (t + d) t = false) /\
  (240 * NS <= Z.abs d -> ~ In (epoch KeyRefreshInterval_ns t) (slots KeyRefreshInterval_ns (t + d))).
Proof. exact c08_stale. Qed.
Print Assumptions C08_stale_refused.

(* every history of cache lookups (arbitrary times and jitter draws): keys handed out are those of the slot of [now] *)
Theorem C08_cache_slot_exact : forall (h : list (Z * Z)) (now j : Z),
  let '(_, e, _) := cache_lookup KeyRefreshInterval_ns cacheValidInterval_ns
                      (cache_run KeyRefreshInterval_ns cacheValidInterval_ns None h) now j in
  e_epoch e = epoch KeyRefreshInterval_ns now /\ e_keys e = slots KeyRefreshInterval_ns now.
Proof. exact c08_cache. Qed.
Print Assumptions C08_cache_slot_exact.

Theorem C08_decryptor_slot_exact : forall V (d c : option entry) (now j : Z),
  cache_ok d -> cache_ok c ->
  let '(e, d', c') := decryptor_lookup KeyRefreshInterval_ns V d c now j in
  cache_ok d' /\ cache_ok c' /\ e_epoch e = epoch KeyRefreshInterval_ns now /\ e_keys e = slots KeyRefreshInterval_ns now.
Proof. exact decryptor_slot_exact. Qed.
Print Assumptions C08_decryptor_slot_exact.
