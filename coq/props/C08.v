(* C08 — clocks within one minute always agree on keys; stale segments are refused.
   Statements only; each is closed by [exact] of a lemma of proofs/KeyTimeProofs.v. *)
From Coq Require Import ZArith List.
From M Require Import gen.Consts model.KeyTime proofs.KeyTimeProofs.
Open Scope Z_scope.

(* |skew| <= 60 s: common key and mutually accepted timestamps, at every instant of the uint32-minute era *)
Theorem C08_handshake_within_60s : forall t d : Z,
  era t -> era (t + d) -> Z.abs d <= 60 * NS ->
  handshake_ok t (t + d) /\ handshake_ok (t + d) t.
Proof. exact c08_handshake. Qed.
Print Assumptions C08_handshake_within_60s.

(* a key derived up to 120 s away (UDP underlay reused for KeyRefreshInterval/2) is still among the receiver's three *)
Theorem C08_key_within_120s : forall t d : Z,
  Z.abs d <= 120 * NS -> In (epoch KeyRefreshInterval_ns t) (slots KeyRefreshInterval_ns (t + d)).
Proof. exact skew_common_key. Qed.
Print Assumptions C08_key_within_120s.

(* >= 2 minutes: timestamp refused; >= 4 minutes: no common key *)
Theorem C08_stale_refused : forall t d : Z,
  era t -> era (t + d) ->
  (120 * NS <= Z.abs d -> timestamp_ok (t + d) t = false) /\
  (240 * NS <= Z.abs d -> ~ In (epoch KeyRefreshInterval_ns t) (slots KeyRefreshInterval_ns (t + d))).
Proof. exact c08_stale. Qed.
Print Assumptions C08_stale_refused.

(* every history of cache lookups (arbitrary times and jitter draws): keys handed out are those of the slot of [now] *)
Theorem C08_cache_slot_exact : forall (h : list (Z * Z)) (now j : Z),
  let '(_, e, _) := cache_lookup KeyRefreshInterval_ns cacheValidInterval_ns
                      (cache_run KeyRefreshInterval_ns cacheValidInterval_ns None h) now j in
  e_epoch e = epoch KeyRefreshInterval_ns now /\ e_keys e = slots KeyRefreshInterval_ns now.
Proof. exact c08_cache. Qed.
Print Assumptions C08_cache_slot_exact.

Theorem C08_decryptor_slot_exact : forall V (d c : option entry) (now j : Z),
  cache_ok d -> cache_ok c ->
  let '(e, d', c') := decryptor_lookup KeyRefreshInterval_ns V d c now j in
  cache_ok d' /\ cache_ok c' /\ e_epoch e = epoch KeyRefreshInterval_ns now /\ e_keys e = slots KeyRefreshInterval_ns now.
Proof. exact decryptor_slot_exact. Qed.
Print Assumptions C08_decryptor_slot_exact.

(* ---- the AGE of the key-holding client underlay (second dimension besides the skew) ----
   A UDP client underlay created at client time c holds the key of slot(c) and takes new sessions while
   age <= packetUnderlayScheduleWindow_ns (measured on the compiled NewPacketUnderlay, M.gen.Consts);
   the server, at c + age + skew, tries its three slots. *)
Theorem C08_aged_underlay_common_key : forall c age skew : Z,
  0 <= age -> underlay_takes_sessions packetUnderlayScheduleWindow_ns age = true -> Z.abs skew <= 60 * NS ->
  In (epoch KeyRefreshInterval_ns c) (slots KeyRefreshInterval_ns (c + age + skew)).
Proof. exact aged_underlay_common_key. Qed.
Print Assumptions C08_aged_underlay_common_key.

(* the whole open of a new session on an aged underlay: key found by the server, fresh minute stamp accepted by the
   server, and the stamp of the server's reply accepted by the client *)
Theorem C08_aged_underlay_handshake : forall c age skew : Z,
  era (c + age) -> era (c + age + skew) ->
  0 <= age -> underlay_takes_sessions packetUnderlayScheduleWindow_ns age = true -> Z.abs skew <= 60 * NS ->
  open_request_ok KeyRefreshInterval_ns c (c + age) skew = true /\ timestamp_ok (c + age) (c + age + skew) = true.
Proof. exact aged_underlay_handshake. Qed.
Print Assumptions C08_aged_underlay_handshake.

(* the window of the code is the largest safe one: every larger window admits an age inside it and a skew of at
   most 60 s for which the server does not try the underlay's key *)
Theorem C08_underlay_window_maximal : forall w : Z,
  packetUnderlayScheduleWindow_ns < w ->
  exists c age skew, 0 <= age /\ underlay_takes_sessions w age = true /\ Z.abs skew <= 60 * NS /\
                     ~ In (epoch KeyRefreshInterval_ns c) (slots KeyRefreshInterval_ns (c + age + skew)).
Proof. exact underlay_window_maximal. Qed.
Print Assumptions C08_underlay_window_maximal.

(* in particular a window of one whole refresh interval ("the receiver tries three slots") is refuted by a witness:
   underlay created 1 ns before a slot change, 90 s old, server 60 s ahead *)
Theorem C08_full_refresh_window_refuted :
  exists c age skew, 0 <= age /\ underlay_takes_sessions KeyRefreshInterval_ns age = true /\ Z.abs skew <= 60 * NS /\
                     ~ In (epoch KeyRefreshInterval_ns c) (slots KeyRefreshInterval_ns (c + age + skew)) /\
                     key_found KeyRefreshInterval_ns (epoch KeyRefreshInterval_ns c) (c + age + skew) = false.
Proof. exact full_refresh_window_refuted. Qed.
Print Assumptions C08_full_refresh_window_refuted.

(* TCP: a stream underlay's key is matched by the server once, on the first segment of the connection; the only
   age is the latency between the client's key derivation (dial) and the server's read of that segment.  Sessions
   opened later on the connection use the running stateful cipher and no time slot at all. *)
Theorem C08_stream_first_segment_common_key : forall c latency skew : Z,
  0 <= latency <= 60 * NS -> Z.abs skew <= 60 * NS ->
  In (epoch KeyRefreshInterval_ns c) (slots KeyRefreshInterval_ns (c + latency + skew)).
Proof. exact aged_key_common. Qed.
Print Assumptions C08_stream_first_segment_common_key.

(* ---- the SOURCE of the timestamp test as it is now (gen/Translated.v, regenerated from /repo on every run) ----
   mathext.Mid and mathext.WithinRange at uint32 are the model's mid3 / within_range32 - the function under
   timestamp_ok in C08_handshake_within_60s and C08_stale_refused - for all arguments; and the stamp written by
   sessionStruct.Marshal at a clock of [t / NS] seconds is the model's minute(t). *)
From M Require Import base.MiniGo gen.Translated proofs.TranslatedTimeProofs.

Theorem C08_source_mid : forall a b c : Z, xl_mathext_Mid_uint32 a b c = mid3 a b c.
Proof. exact xl_Mid_uint32_eq_model. Qed.
Print Assumptions C08_source_mid.

Theorem C08_source_within_range : forall v target margin : Z,
  xl_mathext_WithinRange_uint32 v target margin = within_range32 v target margin.
Proof. exact xl_WithinRange_uint32_eq_model. Qed.
Print Assumptions C08_source_within_range.

Theorem C08_source_stamp_is_minute : forall t : Z, stamp (t / NS) = minute t.
Proof. exact stamp_minute. Qed.
Print Assumptions C08_source_stamp_is_minute.
