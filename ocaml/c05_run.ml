(* Model runner for C05 (and the replay mode used by C06).  usage: c05_model cases.txt impl.txt > model.txt
   Case line (tokens): <tag> <transport> <kind> <len> <field> <hdr> <opens> <ts> <dup> [<sid>]
     tag        P (probe), G (genuine traffic), R (replay)           - descriptive
     transport  tcp | udp
     kind,field what the probe is and which field was mutated         - descriptive
     len        number of bytes sent on the connection / in the datagram
     hdr        1 iff a complete 72-byte header is present (checked against len here)
     opens      1 iff that header opens under a key of a registered user at that instant
     ts         ok | stale  (metadata timestamp within one minute of the server's clock)
     dup        1 iff the replay cache holds the header's first 16 bytes (with a conflicting tag)
     sid        session id of the openSessionRequest (default 7)
     plen slen  (optional) payload length and suffix padding length announced by the metadata of the complete
                first segment the probe was cut from / extended: the toy segment is header ++ payload box
                (plen + 16 bytes, absent when plen = 0) ++ slen padding bytes, truncated or extended to len
   The extracted model (tcp_front / udp_front of model/ServerFront.v) is instantiated with a toy cipher:
   a header opens under key 1 iff byte 56 is 101; the cache answers [dup].  The runner builds a toy input of
   the same length and attributes and prints what the model predicts:
     out=<0|1> sess=<n> acc=<n>
   out = 1 iff the model's step writes to the peer or creates a session (a created session answers with
   openSessionResponse); sess = sessions created; acc = sessions handed to Accept. *)
open Model
open Common

let nb i = n_of_int i
let rec rep x k = if k <= 0 then [] else x :: rep x (k - 1)
let now_z = xb_zmul (z_of_int 1257894000) (z_of_int 1000000000)
let be32 v = [nb ((v lsr 24) land 255); nb ((v lsr 16) land 255); nb ((v lsr 8) land 255); nb (v land 255)]

let topen (k : int) (h : n list) : n list option =
  if List.length h = 72 && int_of_n (List.nth h 56) = 100 + k then
    Some (List.filteri (fun i _ -> i >= 24 && i < 56) h)
  else None
let tbody (_ : int) (_ : n list) (box : n list) : n list option =
  let l = List.length box in
  if l < 16 then None else Some (List.filteri (fun i _ -> i < l - 16) box)
let cands _ _ = [1; 2]
let tsig (b : n list) : n = List.fold_left (fun a x -> xb_nadd (xb_nmul a (nb 256)) x) N0 b

(* Management lines:  S <transport> <entries>  (server started with this user list)
                      U <transport> <entries>  (the operator published this list: SetServerUsers)
   entries = "none" or space separated  key:name:present:password:hashed  (hex, "-" = empty).
   Printed: the generation in force according to model/UserTable.v  published init history  =  compile_users of the
   LAST list, as  users=<n> <name hex>:<P | H<credential hex>> ...  (P: credential = HashPassword(password, name)). *)
let toyhash (pw : n list) (name : n list) : n list = (nb 255) :: pw @ [nb 0] @ name
let parse_entry (tok : string) : entry =
  match String.split_on_char ':' tok with
  | [k; nm; pr; pw; hs] ->
    { e_key = bytes_of_hex k; e_name = bytes_of_hex nm; e_present = (pr = "1"); e_password = bytes_of_hex pw; e_hashed = bytes_of_hex hs }
  | _ -> failwith ("bad entry " ^ tok)
let histories : (string, entry list * entry list list) Hashtbl.t = Hashtbl.create 4
let render_table (last : entry list) (us : cuser list) : string =
  let one (u : cuser) =
    let by_pw = List.exists (fun e -> e.e_present && e.e_name = u.c_name && e.e_hashed = [] && toyhash e.e_password e.e_name = u.c_cred) last in
    let nm = if u.c_name = [] then "-" else hex_of_bytes u.c_name in
    Printf.sprintf " %s:%s" nm (if by_pw then "P" else "H" ^ (if u.c_cred = [] then "" else hex_of_bytes u.c_cred)) in
  Printf.sprintf "users=%d%s" (List.length us) (String.concat "" (List.map one us))

let () =
  let cases = open_in Sys.argv.(1) in
  iter_lines cases (fun line ->
    match split_ws line with
    | tag :: transport :: toks when tag = "S" || tag = "U" ->
      let es = if toks = ["none"] then [] else List.map parse_entry toks in
      let (init, h) =
        if tag = "S" then (es, [])
        else (match Hashtbl.find_opt histories transport with Some (i, h) -> (i, h @ [es]) | None -> ([], [es])) in
      Hashtbl.replace histories transport (init, h);
      let last = (match List.rev h with l :: _ -> l | [] -> init) in
      print_endline (render_table last (published toyhash init h))
    | _tag :: transport :: _kind :: len :: _field :: hdr :: opens :: ts :: dup :: rest ->
      let len = int_of_string len and opens = (opens = "1") and dup = (dup = "1") in
      let sid = (match rest with s :: _ -> int_of_string s | [] -> 7) in
      let shaped = (match rest with [_; pl; sl] -> Some (int_of_string pl, int_of_string sl) | _ -> None) in
      if (hdr = "1") <> (len >= 72) then print_endline "bad-case: hdr flag contradicts len"
      else begin
        let minute_now = int_of_z (minute now_z) in
        let stamp = if ts = "ok" then minute_now else minute_now - 10 in
        (* openSessionRequest, session id sid, no payload, suffix padding = whatever follows the header on UDP *)
        let (plen, pad) = (match shaped with
          | Some (pl, sl) -> (pl, sl)
          | None -> (0, if transport = "udp" && len > 72 then min (len - 72) 255 else 0)) in
        let meta = [nb 2; nb 0] @ be32 stamp @ be32 sid @ be32 0 @ [nb 0; nb (plen / 256); nb (plen mod 256); nb pad] @ rep (nb 0) 14 in
        let header =
          if opens then rep (nb 0) 24 @ meta @ [nb 101] @ rep (nb 0) 15
          else rep (nb 170) 72 in
        let input =
          (match shaped with
           | Some (pl, sl) ->
             let full = header @ (if pl > 0 then rep (nb 9) (pl + 16) else []) @ rep (nb 7) sl in
             let fl = List.length full in
             if len <= fl then List.filteri (fun i _ -> i < len) full else full @ rep (nb 5) (len - fl)
           | None ->
             if len >= 72 then header @ rep (nb 9) (len - 72)
             else List.filteri (fun i _ -> i < len) header) in
        let rc_dup (c : unit) _ _ _ = (dup, c) in
        let src = [nb 49] in
        if transport = "tcp" then begin
          let (r, _) = tcp_front topen tbody (fun _ -> true) (fun _ w -> Some w) cands tsig rc_dup () src input now_z in
          let out = (r.t_out <> []) || (r.t_created <> []) in
          Printf.printf "out=%s sess=%d acc=%d\n" (bool_s out) (List.length r.t_created) (List.length r.t_app)
        end else begin
          let st = { u_rc = (); u_sessions = [] } in
          let (r, _) = udp_front (fun k -> nb k) topen tbody (fun _ -> true) (fun _ w -> Some w) cands tsig rc_dup st input src now_z in
          let out = (r.u_out <> []) || (r.u_created <> []) in
          Printf.printf "out=%s sess=%d acc=%d\n" (bool_s out) (List.length r.u_created) (List.length r.u_created)
        end
      end
    | _ -> print_endline "?")
