(* Model runner for C10.  usage: c10_model cases.txt impl.txt > model.txt
   I role tr user k {sid owner blockset est}*k   reset the endpoint state of the model
   W/X <wire fields>                             one network input: the outcome class of model/Dispatch.v (step true)
                                                 X: racy observation (a closed session may or may not still be in the
                                                 session map), the implementation's line is echoed
   P p / V p sid / E shape / U hex / M hex       pure functions *)
open Model
open Common

let env_all = { v_insert_ok = true; v_window_open = true; v_quota_ok = true; v_write_ok = true }
let b s = (s = "1")

let parse_wire f =
  match f with
  | [short; fromsrv; replay; ak; av; metalen; proto; ts; le; sid; seq; unack; window; status; plen; body] ->
    let auth = (match ak with "n" -> AuthNone | "e" -> AuthExisting (n_of_dec av) | _ -> AuthUser (n_of_dec av)) in
    let body = (match body with "ok" -> BodyOK | "short" -> BodyShort | "pad" -> BodyPadMismatch | "tag" -> BodyBadTag | _ -> BodyLEBad) in
    { w_short = b short; w_from_server = b fromsrv; w_replay = b replay; w_auth = auth; w_metalen_ok = b metalen;
      w_proto = n_of_dec proto; w_ts_ok = b ts; w_le_ok = b le; w_sid = n_of_dec sid; w_seq = n_of_dec seq;
      w_unack = n_of_dec unack; w_window = n_of_dec window; w_status = n_of_dec status; w_payload_len = n_of_dec plen; w_body = body }
  | _ -> failwith "bad W line"

let rec build_err (s : string) (i : int) : goerr =
  if i >= String.length s then EPlain else
  match s.[i] with
  | 'P' -> EPlain
  | 'W' -> EWrapf (build_err s (i + 1))
  | c ->
    let t = (match c with '0' -> NO_ERROR | '1' -> UNKNOWN_ERROR | '2' -> PROTOCOL_ERROR | '3' -> NETWORK_ERROR | '4' -> CRYPTO_ERROR | _ -> REPLAY_ERROR) in
    ETyped (t, build_err s (i + 1))

let () =
  let cases = open_in Sys.argv.(1) and impl = open_in Sys.argv.(2) in
  let st = ref { e_role = Server; e_tr = UDP; e_user = N0; e_sessions = [] } in
  iter_lines cases (fun line ->
    let obs = (try input_line impl with End_of_file -> "") in
    match split_ws line with
    | "I" :: role :: tr :: user :: _k :: rest ->
      let client = (role = "c") in
      let rec sess l = (match l with
        | sid :: owner :: blockset :: est :: tl ->
          let o = n_of_dec owner in
          { s_id = n_of_dec sid; s_client = client; s_closed = false; s_established = b est;
            s_block = (if b blockset then Some o else None);
            s_policy = (if client then None else Some o); s_user = (if client || not (b blockset) then N0 else o) } :: sess tl
        | _ -> []) in
      st := { e_role = (if client then Client else Server); e_tr = (if tr = "t" then TCP else UDP); e_user = n_of_dec user; e_sessions = sess rest };
      print_endline "-"
    | "W" :: f | "X" :: f ->
      let racy = (List.hd (split_ws line) = "X") in
      let w = parse_wire f in
      let o = step true env_all !st w in
      let before = List.length !st.e_sessions in
      let cls = (match o with
        | Ok e' -> if List.length e'.e_sessions > before then "opened" else "live"
        | Drop _ -> "live" | Reply _ -> "reply" | CloseSession (_, _) -> "sessclosed" | CloseUnderlay -> "ulclosed"
        | Panic x -> "crash:" ^ dec_of_n (site_code x)) in
      st := outcome_state !st o;
      if racy then print_endline obs else print_endline cls
    | ["P"; p] ->
      let p = n_of_dec p in
      let sess = is_session_proto p in
      let g = mk_seg (if sess then KSession else KDataAck) { (parse_wire ["0";"0";"0";"n";"0";"1";"0";"1";"0";"0";"0";"0";"0";"0";"0";"ok"]) with w_proto = p } None N0 false in
      Printf.printf "%s%s%s%s %s %s\n" (bool_s sess) (bool_s (is_data_proto p)) (bool_s (is_ack_proto p)) (bool_s (is_le_proto p))
        (bool_s (server_direction_ok p)) (bool_s (tree_insert_guard g <> None))
    | ["V"; p; sid] ->
      (* validateNewServerSessionSegment: the guard of the TCP dispatch *)
      let p = n_of_dec p and sid = n_of_dec sid in
      print_endline (bool_s (p = p_openReq && sid <> N0))
    | ["E"; shape] ->
      let e = (if shape = "-" then None else Some (build_err shape 0)) in
      print_endline (dec_of_z (errtype_code (get_error_type e)))
    | ["U"; hex] ->
      (match parse_socks5_udp (bytes_of_hex hex) with
       | None -> print_endline "ERR"
       | Some hl -> Printf.printf "OK %s\n" (dec_of_n hl))
    | ["M"; hex] ->
      (match parse_socks5_msg (bytes_of_hex hex) with
       | None -> print_endline "ERR"
       | Some (cmd, used) -> Printf.printf "OK %s %s\n" (dec_of_n cmd) (dec_of_n used))
    | _ -> print_endline "?")
