(* Model runner for C16.  usage: c16_model cases.txt impl.txt > model.txt
   O lines fill the oracle table (values of rng.FixedInt obtained by the driver from the real function);
   G lines run the model's NewConfig with that table as the oracle [fixed]; a lookup that the table does
   not contain prints ORACLE-MISS (the model asked for a draw the implementation's code cannot make).
   R lines are an acceptor: the implementation's set of observed lengths is printed back iff every
   length is produced by the model for some draw in range; otherwise the model's full set is printed.
   W lines are an acceptor too (draws reconstructed from the observed write sizes); Q compares floor sqrt. *)
open Model
open Common

exception Oracle_miss of string

let tags = [| TTcpEnable; TTcpMaxSleep; TNonceType; TNonceAllUDP; TNonceMinLen; TNonceMaxLen; TPadMid; TPadEnd; TLeMode; TLeRot |]
let tag_index t =
  let r = ref (-1) in Array.iteri (fun i x -> if x = t then r := i) tags; !r

let table : (string, z) Hashtbl.t = Hashtbl.create 4096
let key n seed ti = dec_of_z n ^ "/" ^ dec_of_z seed ^ "/" ^ string_of_int ti
let fixed (n : z) ((seed, t) : z * tag) : z =
  let k = key n seed (tag_index t) in
  match Hashtbl.find_opt table k with
  | Some v -> v
  | None -> raise (Oracle_miss k)

let oz s = if s = "-" then None else Some (z_of_dec s)
let ob s = if s = "-" then None else Some (s = "1")
let sz o = match o with None -> "-" | Some v -> dec_of_z v
let sb o = match o with None -> "-" | Some true -> "1" | Some false -> "0"

(* parses a pattern from a token list; returns (pattern, rest) *)
let parse_pattern (toks : string list) : pattern * string list =
  match toks with
  | seed :: unlock :: t :: en :: sl :: n :: ty :: all :: mn :: mx :: nhex :: rest ->
    let k = int_of_string nhex in
    let rec take i l acc = if i = 0 then (List.rev acc, l) else (match l with x :: r -> take (i - 1) r (x :: acc) | [] -> failwith "short") in
    let (hexs, rest) = take k rest [] in
    (match rest with
     | p :: mid :: en_ :: l :: mode :: rot :: rest ->
       let tcp = if t = "T" then Some { tf_enable = ob en; tf_max_sleep = oz sl } else None in
       let nonce = if n = "N" then Some { np_type = oz ty; np_all_udp = ob all; np_min = oz mn; np_max = oz mx;
                                          np_hex = List.map bytes_of_hex hexs } else None in
       let pad = if p = "P" then Some { pp_mid = oz mid; pp_end = oz en_ } else None in
       let le = if l = "L" then Some { le_mode = oz mode; le_rot = oz rot } else None in
       ({ tp_seed = oz seed; tp_unlock = ob unlock; tp_tcp = tcp; tp_nonce = nonce; tp_pad = pad; tp_le = le }, rest)
     | _ -> failwith "short pattern")
  | _ -> failwith "short pattern"

let show_pattern (p : pattern) : string =
  let b = Buffer.create 128 in
  let add s = if Buffer.length b > 0 then Buffer.add_char b ' '; Buffer.add_string b s in
  add (sz p.tp_seed); add (sb p.tp_unlock);
  (match p.tp_tcp with
   | Some f -> add "T"; add (sb f.tf_enable); add (sz f.tf_max_sleep)
   | None -> add "t"; add "-"; add "-");
  (match p.tp_nonce with
   | Some n -> add "N"; add (sz n.np_type); add (sb n.np_all_udp); add (sz n.np_min); add (sz n.np_max);
     add (string_of_int (List.length n.np_hex)); List.iter (fun h -> add (hex_of_bytes h)) n.np_hex
   | None -> add "n"; add "-"; add "-"; add "-"; add "-"; add "0");
  (match p.tp_pad with
   | Some q -> add "P"; add (sz q.pp_mid); add (sz q.pp_end)
   | None -> add "p"; add "-"; add "-");
  (match p.tp_le with
   | Some l -> add "L"; add (sz l.le_mode); add (sz l.le_rot)
   | None -> add "l"; add "-"; add "-");
  Buffer.contents b

let opt_pattern toks = match toks with
  | "0" :: _ -> None
  | "1" :: rest -> Some (fst (parse_pattern rest))
  | _ -> failwith "bad pattern option"

let () =
  let cases = open_in Sys.argv.(1) and impl = open_in Sys.argv.(2) in
  iter_lines cases (fun line ->
    let obs = (try input_line impl with End_of_file -> "") in
    try
      match split_ws line with
      | ["O"; seed; ti; n; v] ->
        Hashtbl.replace table (key (z_of_dec n) (z_of_dec seed) (int_of_string ti)) (z_of_dec v);
        print_endline "-"
      | "G" :: host :: toks ->
        let (p, _) = parse_pattern toks in
        (match new_config fixed true (* with the fix *) p (z_of_dec host) with
         | (_, Some e) -> Printf.printf "OK %s V %s\n" (show_pattern e) (dec_of_z (validate e))
         | (code, None) -> Printf.printf "ERR %s\n" (dec_of_z code))
      | ["R"; size; mn; mx] ->
        let n = { np_type = None; np_all_udp = None; np_min = oz mn; np_max = oz mx; np_hex = [] } in
        let size = z_of_dec size in
        let possible = List.sort_uniq compare
            (List.init 64 (fun d -> int_of_z (nonce_rewrite_len (fun k -> if xb_zltb (z_of_int d) k then z_of_int d else Z0) n size))) in
        let observed = List.map int_of_string (split_ws obs) in
        if observed <> [] && List.for_all (fun v -> List.mem v possible) observed
        then print_endline obs
        else print_endline (String.concat " " (List.map string_of_int possible))
      | ["U"; implicit; all; k] ->
        let implicit = implicit = "1" and all = (match ob all with Some b -> b | None -> false) in
        let k = int_of_string k in
        let bits = List.init k (fun i -> bool_s (nonce_pattern_applies implicit (i > 0) all)) in
        print_endline (String.concat " " bits)
      | "K" :: ty :: nhex :: hexs ->
        let n = { np_type = oz ty; np_all_udp = None; np_min = None; np_max = None; np_hex = List.map bytes_of_hex hexs } in
        print_endline (dec_of_z (nonce_prefix_class n))
      | "P" :: mtu :: stream :: frag :: ex :: pos :: rest ->
        let tp = opt_pattern rest in
        print_endline (dec_of_z (max_padding_tp (z_of_dec mtu) (stream = "1") (z_of_dec frag) (z_of_dec ex) tp (z_of_dec pos)))
      | "E" :: client :: used :: rest ->
        let tp = opt_pattern rest in
        let ((m, r), s) = le_send_decision tp (client = "1") (used = "1") in
        Printf.printf "%s %s %s\n" (dec_of_z m) (dec_of_z r) (bool_s s)
      | "W" :: n :: rest ->
        (* acceptor: the draws are reconstructed from the observed sizes (draw = size - minLen when that is a
           legal draw, the largest draw otherwise); the model's plan for those draws is printed *)
        let tp = opt_pattern rest in
        let n = int_of_string n in
        let data = List.init n (fun _ -> N0) in
        let zn = z_of_int n in
        let mn = int_of_z (frag_min_len zn) and mx = int_of_z (frag_max_len zn) in
        let observed = if obs = "-" then [] else List.map int_of_string (split_ws obs) in
        let draws = List.map (fun p -> z_of_int (if p >= mn && p <= mx then p - mn else mx - mn)) observed in
        let plan = tcp_writes tp data draws in
        let sizes = List.map (fun p -> string_of_int (List.length p)) plan in
        print_endline (if sizes = [] then "-" else String.concat " " sizes)
      | ["Q"; n] -> print_endline (dec_of_z (xb_zadd (frag_min_len (z_of_dec n)) (z_of_int (-1))))
      | _ -> print_endline "?"
    with
    | Oracle_miss k -> print_endline ("ORACLE-MISS " ^ k)
    | Failure m -> print_endline ("PARSE-ERROR " ^ m))
