(* Model runner for C06 (replay cache).  usage: c06_model cases.txt impl.txt > model.txt
   Line protocol: see harness/cmd/c06/main.go.  Deterministic: impl.txt is not consulted. *)
open Model
open Common

let dump (g : (n * n list) list) : string =
  if g = [] then "-" else begin
    let l = List.map (fun (k, v) -> (int_of_n k, hex_of_bytes v)) g in
    let l = List.sort compare l in
    String.concat "," (List.map (fun (k, v) -> Printf.sprintf "%d:%s" k v) l)
  end

let state_s (c : cache) : string =
  Printf.sprintf "%d %d %s %s %s" (List.length c.cur) (List.length c.prev) (dec_of_z c.expire) (dump c.cur) (dump c.prev)

let () =
  let cases = open_in Sys.argv.(1) in
  let st : cache option ref = ref None in
  iter_lines cases (fun line ->
    match split_ws line with
    | "H" :: cap :: ival :: now0 :: ops ->
      (match new_cache (z_of_dec cap) (z_of_dec ival) (z_of_dec now0) with
       | None -> print_endline "PANIC"
       | Some c0 ->
         let c = ref c0 and now = ref (z_of_dec now0) and bits = Buffer.create 16 in
         List.iter (fun o ->
           match String.split_on_char ':' o with
           | [s; t; dt] ->
             now := xb_zadd !now (z_of_dec dt);
             let (r, c') = is_duplicate !c (n_of_dec s) (bytes_of_hex t) !now in
             c := c'; Buffer.add_string bits (bool_s r)
           | _ -> Buffer.add_char bits '?') ops;
         Printf.printf "%s %s\n" (Buffer.contents bits) (state_s !c))
    | ["N"; cap; ival; now] ->
      (match new_cache (z_of_dec cap) (z_of_dec ival) (z_of_dec now) with
       | None -> st := None; print_endline "PANIC"
       | Some c -> st := Some c; print_endline "ok")
    | ["P"; which; now] ->
      let (cap, ival) = if which = "stream" then (streamReplayCapacity, streamReplayInterval_ns)
                        else (packetReplayCapacity, packetReplayInterval_ns) in
      (match new_cache cap ival (z_of_dec now) with
       | None -> st := None; print_endline "PANIC"
       | Some c -> st := Some c; Printf.printf "%s %s %s\n" (dec_of_z c.cap) (dec_of_z c.interval) (dec_of_z c.expire))
    | ["D"; s; t; now] ->
      (match !st with
       | None -> print_endline "NOCACHE"
       | Some c ->
         let (r, c') = is_duplicate c (n_of_dec s) (bytes_of_hex t) (z_of_dec now) in
         st := Some c';
         Printf.printf "%s %s\n" (bool_s r) (state_s c'))
    | _ -> print_endline "?")
