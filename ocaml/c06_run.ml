(* Model runner for C06 (replay cache).  usage: c06_model cases.txt impl.txt > model.txt
   Line protocol: see harness/cmd/c06/main.go.  Deterministic: impl.txt is not consulted. *)
open Model
open Common

let dump (g : (n * n list) list) : string =
  if g = [] then "-" else begin
    let l = List.map (fun (k, v) -> (int_of_n k, hex_of_bytes v)) g in
    let l = List.sort compare l in
    String.concat "," (List.map (fun (k, v) -> Printf.sprintf "%d:%s" k v) l)
  end

let state_s (c : cache) : string =
  Printf.sprintf "%d %d %s %s %s" (List.length c.cur) (List.length c.prev) (dec_of_z c.expire) (dump c.cur) (dump c.prev)

let () =
  let cases = open_in Sys.argv.(1) in
  let st : cache option ref = ref None in
  (* the two process-wide objects: server = (users generation, cache); sel = which object D/R lines address *)
  let gsrv : (string * server) list ref = ref [] and sel : string ref = ref "" in
  let cur_cache () = if !sel = "" then !st else (match List.assoc_opt !sel !gsrv with Some s -> Some s.s_rc | None -> None) in
  let set_cache c = if !sel = "" then st := Some c
                    else gsrv := (!sel, { s_users = (List.assoc !sel !gsrv).s_users; s_rc = c }) :: List.remove_assoc !sel !gsrv in
  iter_lines cases (fun line ->
    match split_ws line with
    | "H" :: cap :: ival :: now0 :: ops ->
      (match new_cache (z_of_dec cap) (z_of_dec ival) (z_of_dec now0) with
       | None -> print_endline "PANIC"
       | Some c0 ->
         let c = ref c0 and now = ref (z_of_dec now0) and bits = Buffer.create 16 in
         List.iter (fun o ->
           match String.split_on_char ':' o with
           | [s; t; dt] ->
             now := xb_zadd !now (z_of_dec dt);
             let (r, c') = is_duplicate !c (n_of_dec s) (bytes_of_hex t) !now in
             c := c'; Buffer.add_string bits (bool_s r)
           | _ -> Buffer.add_char bits '?') ops;
         Printf.printf "%s %s\n" (Buffer.contents bits) (state_s !c))
    | ["N"; cap; ival; now] ->
      sel := "";
      (match new_cache (z_of_dec cap) (z_of_dec ival) (z_of_dec now) with
       | None -> st := None; print_endline "PANIC"
       | Some c -> st := Some c; print_endline "ok")
    | ["G"; which; now] ->
      (* the process-wide object itself: created at program start with the parameters of gen/Consts *)
      let (cap, ival) = if which = "stream" then (streamReplayCapacity, streamReplayInterval_ns)
                        else (packetReplayCapacity, packetReplayInterval_ns) in
      (if not (List.mem_assoc which !gsrv) then
         match new_cache cap ival (z_of_dec now) with
         | None -> ()
         | Some c -> gsrv := (which, { s_users = N0; s_rc = c }) :: !gsrv);
      sel := which;
      (match cur_cache () with
       | None -> print_endline "PANIC"
       | Some c -> Printf.printf "%s %s %s\n" (dec_of_z c.cap) (dec_of_z c.interval) (state_s c))
    | ["R"; g] ->
      (* management reload (Mux.SetServerUsers) with users generation g: sstep (Reload g) *)
      (match List.assoc_opt !sel !gsrv with
       | None -> print_endline "NOSERVER"
       | Some s ->
         let (_, s') = sstep s (Reload (n_of_dec g)) in
         gsrv := (!sel, s') :: List.remove_assoc !sel !gsrv;
         Printf.printf "R %s\n" (state_s s'.s_rc))
    | ["P"; which; now] ->
      sel := "";
      let (cap, ival) = if which = "stream" then (streamReplayCapacity, streamReplayInterval_ns)
                        else (packetReplayCapacity, packetReplayInterval_ns) in
      (match new_cache cap ival (z_of_dec now) with
       | None -> st := None; print_endline "PANIC"
       | Some c -> st := Some c; Printf.printf "%s %s %s\n" (dec_of_z c.cap) (dec_of_z c.interval) (dec_of_z c.expire))
    | ["D"; s; t; now] when !sel <> "" ->
      (* traffic at a process-wide object: sstep (Present ...) of the server model *)
      (match List.assoc_opt !sel !gsrv with
       | None -> print_endline "NOCACHE"
       | Some sv ->
         let (r, sv') = sstep sv (Present ((n_of_dec s, bytes_of_hex t), z_of_dec now)) in
         gsrv := (!sel, sv') :: List.remove_assoc !sel !gsrv;
         Printf.printf "%s %s\n" (match r with Some b -> bool_s b | None -> "?") (state_s sv'.s_rc))
    | ["D"; s; t; now] ->
      (match cur_cache () with
       | None -> print_endline "NOCACHE"
       | Some c ->
         let (r, c') = is_duplicate c (n_of_dec s) (bytes_of_hex t) (z_of_dec now) in
         set_cache c';
         Printf.printf "%s %s\n" (bool_s r) (state_s c'))
    | _ -> print_endline "?")
