(* Model runner for C15.  usage: c15_model cases.txt impl.txt > model.txt
   Replays the D / I / T lines of every scenario through Deadline.v (effective deadline of every call under the
   code's reset-on-return rule and the client's 10 s arming) and judges every returned / blocked call with the
   acceptors of Lifecycle.v.  Prints the observed class when the model accepts it, its own prediction otherwise. *)
open Model
open Common

let cls_of_string = function
  | "DATA" -> DATA | "EOF" -> EOF | "TIMEOUT" -> TIMEOUT | "UEOF" -> UEOF | "CLOSED" -> CLOSED | "OK" -> OK
  | "BLOCKED" -> BLOCKED | _ -> ERR
let string_of_cls = function
  | DATA -> "DATA" | EOF -> "EOF" | TIMEOUT -> "TIMEOUT" | UEOF -> "UEOF" | CLOSED -> "CLOSED" | OK -> "OK"
  | BLOCKED -> "BLOCKED" | ERR -> "ERR"

let tol = z_of_int 60000
let close_bound = z_of_int 3000000

let () =
  let cases = open_in Sys.argv.(1) and impl = open_in Sys.argv.(2) in
  let ds : (string, dstate) Hashtbl.t = Hashtbl.create 16 in
  let eff : (string, z) Hashtbl.t = Hashtbl.create 16 in
  let tcp = ref true and hz = ref Z0 and nsess = ref Z0 in
  let get k = try Hashtbl.find ds k with Not_found -> { rd = Z0; wd = Z0 } in
  iter_lines cases (fun line ->
    let obs = (try input_line impl with End_of_file -> "") in
    match split_ws line with
    | "S" :: _ :: tp :: _ :: ns :: _ :: h :: _ ->
      Hashtbl.reset ds; Hashtbl.reset eff; tcp := (tp = "tcp"); hz := z_of_dec h; nsess := z_of_dec ns; print_endline "-"
    | ["D"; e; s; w; abs; _] ->
      let k = e ^ s in
      let w = (match w with "R" -> WhR | "W" -> WhW | _ -> WhB) in
      Hashtbl.replace ds k (set_deadline w (z_of_dec abs) (get k)); print_endline "-"
    | ["I"; e; s; call; kind; _] ->
      let k = e ^ s in
      (match kind with
       | "Read" | "Drain" -> Hashtbl.replace eff call (read_eff (get k))
       | "Write" | "Flood" -> Hashtbl.replace eff call (write_eff (get k))
       | _ -> ());
      print_endline "-"
    | "T" :: e :: s :: call :: kind :: t0 :: t1 :: _n :: facts ->
      let k = e ^ s in
      let t0 = z_of_dec t0 and t1 = z_of_dec t1 in
      let o = cls_of_string obs in
      let ef = (try Hashtbl.find eff call with Not_found -> Z0) in
      let f = List.map z_of_dec facts in
      let isb x = (x <> Z0) in
      let pick ok pred = if ok then string_of_cls o else if pred = o then "REJECTED-" ^ string_of_cls o else string_of_cls pred in
      let res =
        (match kind, f with
         | "Read", [data; clo; chi; elo; ehi] ->
           Hashtbl.replace ds k (read_return (get k));
           pick (accept_read tol !hz t0 t1 ef data clo chi elo ehi o) (predict_read t0 ef data clo chi elo ehi)
         | "Drain", [data; clo; chi; elo; ehi; cur; nreads] ->
           (* a loop of Reads until the first error: the last Read started at cur; every earlier Read returned and
              reset the deadline, so only a single-Read drain still sees the deadline stored before it *)
           let ef' = if xb_zltb (z_of_int 1) nreads then Z0 else ef in
           Hashtbl.replace ds k (read_return (get k));
           pick (accept_read tol !hz cur t1 ef' data clo chi elo ehi o) (predict_read cur ef' data clo chi elo ehi)
         | "Write", [st; clo; chi; olo; ohi; creq] ->
           let early = (o = CLOSED) && (xb_zltb (z_of_int (-1)) creq) && not (xb_zltb t0 creq) in
           if t1 <> z_of_int (-1) then Hashtbl.replace ds k (write_return (e = "c") early o t1 (get k));
           pick (accept_write tol !hz t0 t1 ef (isb st) !tcp clo chi olo ohi creq o) (predict_write t0 ef (isb st) !tcp clo chi creq)
         | "Flood", [st; clo; chi; olo; ohi; creq; cur; dl] ->
           (* the write in progress started at cur under its own deadline cur + dl (dl = 0: whatever the state says,
              which is 0 after any earlier Write returned) *)
           let ef' = if dl <> Z0 then xb_zadd cur dl else (if cur = t0 then ef else Z0) in
           if t1 <> z_of_int (-1) then Hashtbl.replace ds k (write_return (e = "c") false o t1 (get k));
           pick (accept_write tol !hz cur t1 ef' (isb st) !tcp clo chi olo ohi creq o) (predict_write cur ef' (isb st) !tcp clo chi creq)
         | ("Close" | "CMux" | "SMux"), [first; st] ->
           (* closing an underlay closes its sessions one after the other; a session whose close request cannot be
              transmitted any more (connection / socket already closed) uses its whole 1 s poll *)
           let bound = xb_zadd close_bound (xb_zmul !nsess (z_of_int 1000000)) in
           pick (accept_close bound t0 t1 (isb first) (isb st) !tcp o) (predict_close (isb st) !tcp)
         | _ -> "ERR") in
      print_endline res
    | _ -> print_endline "-")
