(* Model runner for C17 (low-entropy codec).  usage: c17_model cases.txt impl.txt > model.txt
   Every case kind is deterministic: the runner prints what the extracted model computes, in the
   format of the implementation's observation line.  On P lines the three model renderings of
   PDEP/PEXT (binary recursion, Intel position loop, Go portable loop) are also compared with
   each other (MODEL-INCONSISTENT if they differ). *)
open Model
open Common

(* 64-bit words <-> N through Int64 (faster than the generic decimal/hex helpers) *)
let n_of_i64 (v : int64) : n =
  if v = 0L then N0 else begin
    (* highest set bit *)
    let hi = ref 63 in
    while Int64.logand (Int64.shift_right_logical v !hi) 1L = 0L do decr hi done;
    let p = ref XH in
    for i = !hi - 1 downto 0 do
      if Int64.logand (Int64.shift_right_logical v i) 1L = 1L then p := XI !p else p := XO !p
    done;
    Npos !p
  end
let w_of_hex (s : string) : n =
  if String.length s > 16 then n_of_hex s else begin
    let v = ref 0L in
    String.iter (fun c -> v := Int64.logor (Int64.shift_left !v 4) (Int64.of_int (hexval c))) s;
    n_of_i64 !v
  end
let rec i64_of_pos (p : positive) (sh : int) (acc : int64) : int64 =
  match p with
  | XH -> Int64.logor acc (Int64.shift_left 1L sh)
  | XO q -> i64_of_pos q (sh + 1) acc
  | XI q -> i64_of_pos q (sh + 1) (Int64.logor acc (Int64.shift_left 1L sh))
let rec pos_len (p : positive) : int = match p with XH -> 1 | XO q | XI q -> 1 + pos_len q
let hex_of_w (x : n) : string =
  match x with
  | N0 -> "0"
  | Npos p -> if pos_len p > 64 then hex_of_n x else Printf.sprintf "%Lx" (i64_of_pos p 0 0L)

let hexdig = "0123456789abcdef"
let hex_of_bytes (l : n list) : string =
  if l = [] then "-" else begin
    let b = Buffer.create 256 in
    List.iter (fun x -> let v = int_of_n x in Buffer.add_char b hexdig.[(v lsr 4) land 15]; Buffer.add_char b hexdig.[v land 15]) l;
    Buffer.contents b
  end

let err_s (e : le_err) : string =
  match e with
  | ErrMode -> "ERR-MODE" | ErrWeight -> "ERR-WEIGHT" | ErrRotation -> "ERR-ROT" | ErrPadBit -> "ERR-PADBIT"
  | ErrLen -> "ERR-LEN" | ErrTooBig -> "ERR-TOOBIG" | ErrEncLen -> "ERR-ENCLEN" | ErrMixed -> "ERR-MIXED"
  | ErrNonUniform -> "ERR-NONUNIFORM" | ErrProto -> "ERR-PROTO" | ErrPayloadLen -> "ERR-PLEN"
  | ErrIndex -> "ERR-INDEX" | ErrInternal -> "ERR-INTERNAL"

let res_s (f : 'a -> string) (r : 'a res) : string = match r with Ok a -> f a | Err e -> err_s e

let tag_len = nat_of_int (int_of_z defaultOverhead)

(* the Go-loop and Intel-loop renderings are slow (N division per step); they are evaluated on the
   first [full_sanity] P lines and on every [sanity_stride]-th P line after that *)
let full_sanity = 2500
let sanity_stride = 13

let () =
  let cases = open_in Sys.argv.(1) in
  let out = Buffer.create (1 lsl 16) in
  let flush_out () = print_string (Buffer.contents out); Buffer.clear out in
  let emit s = Buffer.add_string out s; Buffer.add_char out '\n'; if Buffer.length out > (1 lsl 16) then flush_out () in
  let np = ref 0 in
  iter_lines cases (fun line ->
    match split_ws line with
    | ["P"; x; m; hw] ->
      let x = w_of_hex x and m = w_of_hex m in
      let d = pdep x m and e = pext x m in
      incr np;
      let consistent =
        if !np <= full_sanity || !np mod sanity_stride = 0 then
          pdep_go x m = d && pdep_intel x m = d && pext_go x m = e && pext_intel x m = e
        else true in
      if not consistent then emit "MODEL-INCONSISTENT"
      else begin
        let ds = hex_of_w d and es = hex_of_w e in
        if hw = "1" then emit (Printf.sprintf "%s %s %s %s %s %s" ds es ds es ds es)
        else emit (Printf.sprintf "%s %s %s %s - -" ds es ds es)
      end
    | ["V"; r] -> emit (bool_s (valid_rotation (z_of_dec r)))
    | ["M"; m] ->
      (match mode_params (z_of_dec m) with
       | Some (c, w) -> emit (dec_of_z c ^ " " ^ dec_of_z w)
       | None -> emit "ERR-MODE")
    | ["N"; n; m] -> emit (res_s dec_of_z (enc_len (z_of_dec n) (z_of_dec m)))
    | ["R"; init; rot; idx] -> emit (res_s hex_of_w (chunk_mask (w_of_hex init) (z_of_dec rot) (z_of_dec idx)))
    | ["E"; body; mode; hm; rot; pb] ->
      emit (res_s hex_of_bytes (encode (bytes_of_hex body) (z_of_dec mode) (w_of_hex hm) (z_of_dec rot) (n_of_dec pb)))
    | ["D"; enc; n; mode; hm; rot] ->
      emit (res_s hex_of_bytes (decode (bytes_of_hex enc) (z_of_dec n) (z_of_dec mode) (w_of_hex hm) (z_of_dec rot)))
    | ["T"; proto; mode; hm; epl; pl; rot] ->
      emit (res_s (fun () -> "OK")
              (validate_meta (z_of_dec proto) (z_of_dec mode) (w_of_hex hm) (z_of_dec epl) (z_of_dec pl) (z_of_dec rot)))
    | ["X"; wire; proto; mode; hm; epl; pl; rot] ->
      emit (res_s hex_of_bytes
              (wire_decode (bytes_of_hex wire) (z_of_dec proto) (z_of_dec mode) (w_of_hex hm) (z_of_dec epl) (z_of_dec pl)
                 (z_of_dec rot) tag_len))
    | _ -> emit "?");
  flush_out ()
