(* Model runner for C04.  usage: c04_model cases.txt impl.txt > model.txt
   The Section variables of the receivers are instantiated with
     open       = lookup in the per-case table (nonce, ciphertext) -> plaintext  (None if absent): the ideal AEAD
                  under INT-CTXT; the table holds exactly the boxes the key holders sealed (recorded by the driver
                  from the un-mutated traffic with the real key)
     parse_meta = meta_parse_c now                                               (extracted)
     le_decode  = LowEntropy.decode                                              (extracted)
   T tag now nbox {nonce:ct:pt}* stream        extracted `feed` on an arbitrary (tampered) byte stream
        -> nseg {proto:sid:seq:plen:md5}* fail=<0|1>
   E tag now nbox {nonce:ct:pt}* stream nsid {sid}* role   the same, through `session_in role sid`, projected to what each session's application reads
        -> {sid:len:md5}*
   G tag nev {A:seq:payload | C | K}*              extracted `u_run`: what a UDP session releases to its application
        -> len:md5
   U tag now nbox {nonce:ct:pt}* datagram      extracted `udp_parse` on an arbitrary datagram
        -> DROP | OK proto:sid:seq:plen:md5 *)
open Model
open Common

let str_of_bytes (l : n list) : string =
  let b = Buffer.create 64 in
  List.iter (fun x -> Buffer.add_char b (Char.chr (int_of_n x land 255))) l;
  Buffer.contents b

let raw_of_hex (s : string) : string =
  if s = "-" then "" else String.init (String.length s / 2) (fun i -> Char.chr (hexval s.[2*i] * 16 + hexval s.[2*i+1]))

let md5 (l : n list) : string = Digest.to_hex (Digest.string (str_of_bytes l))

let le_decode_inst (lp : leparams) (elen : n) (enc : n list) : n list option =
  let ((mode, mask), rot) = lp in
  match decode enc (xb_z_of_n elen) (xb_z_of_n mode) mask (xb_z_of_n rot) with
  | Ok l -> Some l
  | Err _ -> None

let table (f : string array) (first : int) (nbox : int) =
  let tbl : (string, n list) Hashtbl.t = Hashtbl.create (2 * nbox + 1) in
  for i = 0 to nbox - 1 do
    match String.split_on_char ':' f.(first + i) with
    | [nonce; ct; pt] -> Hashtbl.replace tbl (raw_of_hex nonce ^ "|" ^ raw_of_hex ct) (bytes_of_hex pt)
    | _ -> failwith "bad table entry"
  done;
  fun (nonce : n list) (c : n list) -> Hashtbl.find_opt tbl (str_of_bytes nonce ^ "|" ^ str_of_bytes c)

let seg_s ((mi, pl) : rseg) =
  Printf.sprintf "%d:%d:%d:%d:%s" (int_of_n mi.mi_proto) (int_of_n mi.mi_sid) (int_of_n mi.mi_seq) (int_of_n mi.mi_plen) (md5 pl)

let rec takel k l = if k <= 0 then [] else match l with [] -> [] | x :: t -> x :: takel (k - 1) t

let is_queued_p p = p = 2 || p = 3 || p = 6 || p = 7 || p = 10 || p = 11

let () =
  let cases = open_in Sys.argv.(1) in
  let impl = open_in Sys.argv.(2) in
  iter_lines cases (fun line ->
    let impl_line = (try input_line impl with End_of_file -> "") in
    let f = Array.of_list (split_ws line) in
    if Array.length f >= 3 && f.(0) = "G" then begin
      (* G tag nev {A:seq:payload | C | K}*  : the session's release of genuine sequenced segments in arrival order *)
      let nev = int_of_string f.(2) in
      let evs = List.init nev (fun i ->
        match String.split_on_char ':' f.(3 + i) with
        | ["A"; q; p] -> UArrive (nat_of_int (int_of_string q), bytes_of_hex p)
        | ["K"] -> UAck
        | _ -> UClose) in
      let st = u_run evs in
      let bytes = List.concat st.u_q in
      print_endline (Printf.sprintf "%d:%s" (List.length bytes) (md5 bytes))
    end else
    if Array.length f < 5 then print_endline "?" else
    let now = n_of_dec f.(2) in
    let nbox = int_of_string f.(3) in
    let opn = table f 4 nbox in
    let data = bytes_of_hex f.(4 + nbox) in
    match f.(0) with
    | "T" ->
      let (segs, st) = feed opn (meta_parse_c now) le_decode_inst r_init data in
      print_endline (String.concat " " (string_of_int (List.length segs) :: List.map seg_s segs) ^ " fail=" ^ bool_s st.r_failed)
    | "E" ->
      let (segs, _) = feed opn (meta_parse_c now) le_decode_inst r_init data in
      let nsid = int_of_string f.(5 + nbox) in
      (* acceptor: the application may have read less than what was delivered to its session (the session is torn
         down with the connection); accept the observation iff it is a prefix of the model's delivery *)
      let obs = Array.of_list (split_ws impl_line) in
      let out = List.init nsid (fun i ->
        let sid = int_of_string f.(6 + nbox + i) in
        (* Session.input of the receiving side: role = C (client receives) | S; refused types end the session *)
        let client = (6 + nbox + nsid < Array.length f) && f.(6 + nbox + nsid) = "C" in
        let bytes = List.concat (List.map (fun ((_, pl) : rseg) -> pl) (session_in client (n_of_int sid) segs)) in
        let full = Printf.sprintf "%d:%d:%s" sid (List.length bytes) (md5 bytes) in
        if i < Array.length obs then
          (match String.split_on_char ':' obs.(i) with
           | [s; l; h] when int_of_string s = sid && int_of_string l <= List.length bytes
                            && md5 (takel (int_of_string l) bytes) = h -> obs.(i)
           | _ -> full)
        else full) in
      print_endline (String.concat " " out)
    | "U" ->
      (match udp_parse opn (meta_parse_c now) le_decode_inst data with
       | None -> print_endline "DROP"
       | Some r -> print_endline ("OK " ^ seg_s r))
    | _ -> print_endline "?")
