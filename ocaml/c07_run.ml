(* Model runner for C07.  usage: c07_model cases.txt impl.txt > model.txt
   Case lines (see harness/cmd/c07/main.go):
     N                                   new generation: empty cache
     X                                   retire the cache
     R key bidx uid tick                 recordAuthenticated, then lookup at the same tick
     P key bidx way last k id tick ...   hand-planted entry (k slots)
     L key bidx tick                     lookup
     T valid key bidx tick mand n hintbits authbits      tryState on the current cache
     D short rc | gid n mand hintbits authbits cached check | ...   discoverUser over iterations
     E mand n creds | ip port uid wrong | ...   end-to-end UDP: clients open sessions one after the other;
                                         creds = credential class of user 1..n, uid = the client's user,
                                         wrong = 1: the client uses an unregistered password
   keys are hex (128 bit), everything else decimal; bit strings and id lists use "-" for empty. *)
open Model
open Common

let bidx_tab : (n, n) Hashtbl.t = Hashtbl.create 64
let bidx (k : n) : n = try Hashtbl.find bidx_tab k with Not_found -> N0

let ids (l : n list) : string = if l = [] then "-" else String.concat "," (List.map dec_of_n l)
let bits (s : string) : bool list =
  if s = "-" then [] else List.init (String.length s) (fun i -> s.[i] = '1')
let id_list (s : string) : n list =
  if s = "-" then [] else List.map n_of_dec (String.split_on_char ',' s)
let rec range a b = if a > b then [] else a :: range (a + 1) b

let key_of s b = let k = n_of_hex s in Hashtbl.replace bidx_tab k (n_of_dec b); k

(* split a token list at "|" *)
let split_bar (toks : string list) : string list list =
  let rec go cur acc = function
    | [] -> List.rev (List.rev cur :: acc)
    | "|" :: r -> go [] (List.rev cur :: acc) r
    | x :: r -> go (x :: cur) acc r in
  go [] [] toks

let () =
  let cases = open_in Sys.argv.(1) in
  let cache : table option ref = ref (Some []) in
  iter_lines cases (fun line ->
    match split_ws line with
    | ["N"] -> cache := Some []; print_endline "-"
    | ["X"] -> cache := step bidx !cache ORetire; print_endline "-"
    | ["R"; k; b; uid; tick] ->
      let k = key_of k b and tick = n_of_dec tick in
      cache := record bidx !cache k (n_of_dec uid) tick;
      print_endline (ids (lookup bidx !cache k tick))
    | "P" :: k :: b :: way :: last :: _cnt :: rest ->
      let k = key_of k b in
      let rec slots = function
        | i :: t :: r -> (n_of_dec i, n_of_dec t) :: slots r
        | _ -> [] in
      let given = slots rest in
      let pad = List.init (max 0 (int_of_n att_cap - List.length given)) (fun _ -> (N0, N0)) in
      let e = { e_key = k; e_last = n_of_dec last; e_slots = given @ pad } in
      cache := plant bidx !cache (nat_of_int (int_of_string way)) e;
      print_endline "-"
    | ["L"; k; b; tick] ->
      let k = key_of k b in
      print_endline (ids (lookup bidx !cache k (n_of_dec tick)))
    | ["T"; valid; k; b; tick; mand; n; hb; ab] ->
      let k = key_of k b in
      let n = int_of_string n in
      let hb = Array.of_list (bits hb) and ab = Array.of_list (bits ab) in
      let users = List.map n_of_int (range 1 n) in
      let hint u = hb.(int_of_n u - 1) and auth u = ab.(int_of_n u - 1) in
      let cached = if valid = "1" then lookup bidx !cache k (n_of_dec tick) else [] in
      let r = try_state hint auth users cached (mand = "1") in
      (match r.r_hit with
       | Some ((i, _), o) ->
         Printf.printf "%s %s %d\n" (dec_of_n i) (dec_of_z (origin_code o)) (List.length r.r_tried)
       | None -> Printf.printf "0 0 %d\n" (List.length r.r_tried))
    | "D" :: short :: rc :: "|" :: rest ->
      let blocks = List.filter (fun b -> b <> []) (split_bar rest) in
      let htab : (int, bool) Hashtbl.t = Hashtbl.create 64 and atab : (int, bool) Hashtbl.t = Hashtbl.create 64 in
      let its = List.mapi (fun idx blk ->
        match blk with
        | [gid; n; mand; hb; ab; cached; check] ->
          let n = int_of_string n in
          List.iteri (fun j v -> Hashtbl.replace htab (idx * 100000 + j + 1) v) (bits hb);
          List.iteri (fun j v -> Hashtbl.replace atab (idx * 100000 + j + 1) v) (bits ab);
          let st = if gid = "nil" then None
            else Some { g_id = n_of_dec gid; g_users = List.map (fun j -> n_of_int (idx * 100000 + j)) (range 1 n) } in
          { it_state = st; it_mand = (mand = "1"); it_cached = id_list cached;
            it_check = (if check = "nil" then None else Some (n_of_dec check)) }
        | _ -> failwith ("bad D block in: " ^ line)) blocks in
      let hint u = (try Hashtbl.find htab (int_of_n u) with Not_found -> false)
      and auth u = (try Hashtbl.find atab (int_of_n u) with Not_found -> false) in
      let rcb = (rc = "1") in
      let rounds = dec_of_n (discover_rounds rcb its) in
      (match discover hint auth (short = "1") rcb its with
       | DOk (g, i, _, o, tried) ->
         Printf.printf "OK %s %s %s %d %s\n" (dec_of_n g.g_id) (dec_of_n i) (dec_of_z (origin_code o)) (List.length tried) rounds
       | DShort -> print_endline "SHORT"
       | DNoUsers -> print_endline "NOUSERS"
       | DNoAuth -> Printf.printf "NOAUTH %s\n" rounds
       | DOutOfObs -> print_endline "OUTOFOBS")
    | "E" :: mand :: n :: creds :: "|" :: rest ->
      let n = int_of_string n in
      let cred = Array.of_list (List.map int_of_string (String.split_on_char ',' creds)) in
      let users = List.map n_of_int (range 1 n) in
      let evs = List.map (fun blk ->
        match blk with
        | [ip; port; uid; wrong] ->
          let uid = int_of_string uid and ok = (wrong = "0") in
          let hint u = (int_of_n u = uid) and auth u = ok && cred.(int_of_n u - 1) = cred.(uid - 1) in
          let disc = (match outcome (try_state hint auth users [] (mand = "1")) with
                      | Some (i, _) -> Some i | None -> None) in
          { ev_ip = n_of_dec ip; ev_port = n_of_dec port; ev_disc = disc;
            ev_opens = (fun s -> ok && cred.(int_of_n s.us_user - 1) = cred.(uid - 1)) }
        | _ -> failwith ("bad E block in: " ^ line)) (List.filter (fun b -> b <> []) (split_bar rest)) in
      let (_, outs) = udp_run same_peer [] evs in
      print_endline (String.concat " " (List.map (function Some u -> dec_of_n u | None -> "0") outs))
    | _ -> print_endline "?")
