(* Model runner for C01.  usage: c01_model cases.txt impl.txt > model.txt
   SEG  : the extracted incremental receiver `feed` runs on the REAL bytes of one direction of a recorded
          connection, in the given chunks.  The Section variables are instantiated with
            open       = lookup in the per-case table (nonce, ciphertext) -> plaintext   (None if absent)
            parse_meta = parse_w now   (model/TcpStreamWire.v over model/Wire.v; cross-checked with meta_parse_c)
            le_decode  = le_decode_w   (model/TcpStreamWire.v over model/LowEntropy.v)
   PLAN : plan_events on the recorded send-side history of one session.
   READ : read1 on the recorded arrivals; the number of payloads that had arrived when a Read ran is not
          observable, so the runner is an acceptor: it looks for the arrival count that explains the
          returned length and lets the model compute the bytes and the next state.
   FRAG : frag_size. *)
open Model
open Common

let str_of_bytes (l : n list) : string =
  let b = Buffer.create 64 in
  List.iter (fun x -> Buffer.add_char b (Char.chr (int_of_n x land 255))) l;
  Buffer.contents b

let bytes_of_sub (s : string) (off : int) (len : int) : n list =
  (* s is hex; off/len in bytes *)
  let rec go i acc = if i < 0 then acc else
      go (i - 1) (byte_tab.(hexval s.[2*(off+i)] * 16 + hexval s.[2*(off+i)+1]) :: acc) in
  go (len - 1) []

let raw_of_hex (s : string) : string =
  if s = "-" then "" else String.init (String.length s / 2) (fun i -> Char.chr (hexval s.[2*i] * 16 + hexval s.[2*i+1]))

let md5 (l : n list) : string = Digest.to_hex (Digest.string (str_of_bytes l))

let le_decode_inst (lp : leparams) (elen : n) (enc : n list) : n list option =
  let ((mode, mask), rot) = lp in
  match decode enc (xb_z_of_n elen) (xb_z_of_n mode) mask (xb_z_of_n rot) with
  | Ok l -> Some l
  | Err _ -> None

let pat_byte s j = (j * 7 + (j lsr 8) * 13 + s) land 255

let rec drop k l = if k <= 0 then l else match l with [] -> [] | _ :: t -> drop (k - 1) t
let rec takel k l = if k <= 0 then [] else match l with [] -> [] | x :: t -> x :: takel (k - 1) t

let run_seg (f : string array) =
  (* f.(0)="SEG" now nbox entries... nch sizes... stream *)
  let now = n_of_dec f.(1) in
  let nbox = int_of_string f.(2) in
  let stream = f.(Array.length f - 1) in
  let tbl : (string, n list) Hashtbl.t = Hashtbl.create (2 * nbox + 1) in
  let disagree = ref "" in
  (* the receiver's clock (minutes) at the time it parsed a metadata block, recorded by the driver *)
  let clock : (string, n) Hashtbl.t = Hashtbl.create (nbox + 1) in
  (* parse_w = the metadata layout of model/Wire.v (the function of the ..._concrete theorems).  On every real
     block the hand-written meta_parse_c must agree with it, and whatever it accepts must satisfy meta_ok_w (the
     explicit side condition of the concrete theorems) and re-marshal to the same 32 bytes. *)
  let parse_meta_inst (mp : n list) : minfo option =
    let nw = match Hashtbl.find_opt clock (str_of_bytes mp) with Some m -> m | None -> now in
    let r = parse_w nw mp in
    if r <> meta_parse_c nw mp then (disagree := "meta_parse_c<>parse_w"; None)
    else match r with
      | Some mi when not (meta_ok_w nw mi) -> (disagree := "accepted-but-not-meta_ok_w"; None)
      | Some mi when marshal_w mi <> mp -> (disagree := "marshal_w(parse_w)<>bytes"; None)
      | _ -> r in
  for i = 0 to nbox - 1 do
    match String.split_on_char ':' f.(3 + i) with
    | [nonce; ct; pt; minute] ->
      let ctraw =
        if String.length ct > 0 && ct.[0] = '@' then begin
          match String.split_on_char '+' (String.sub ct 1 (String.length ct - 1)) with
          | [o; l] -> let o = int_of_string o and l = int_of_string l in raw_of_hex (String.sub stream (2*o) (2*l))
          | _ -> failwith "bad ct ref"
        end else raw_of_hex ct in
      Hashtbl.replace tbl (raw_of_hex nonce ^ "|" ^ ctraw) (bytes_of_hex pt);
      if minute <> "-" then Hashtbl.replace clock (raw_of_hex pt) (n_of_dec minute)
    | _ -> failwith "bad table entry"
  done;
  let opn (nonce : n list) (c : n list) : n list option =
    Hashtbl.find_opt tbl (str_of_bytes nonce ^ "|" ^ str_of_bytes c) in
  let nch = int_of_string f.(3 + nbox) in
  let pos = ref 0 in
  let st = ref r_init in
  let out = Buffer.create 256 in
  for i = 0 to nch - 1 do
    let sz = int_of_string f.(4 + nbox + i) in
    let chunk = bytes_of_sub stream !pos sz in
    pos := !pos + sz;
    let (segs, st') = feed opn parse_meta_inst le_decode_w !st chunk in
    st := st';
    List.iter (fun ((mi, pl) : rseg) ->
      Buffer.add_string out (Printf.sprintf "%d:%d:%d:%d:%d:%d:%d:%d:%s "
        (int_of_n mi.mi_proto) (int_of_n mi.mi_sid) (int_of_n mi.mi_seq) (int_of_n mi.mi_frag) (int_of_n mi.mi_plen)
        (int_of_n mi.mi_pre) (int_of_n mi.mi_suf) (int_of_n mi.mi_elen) (md5 pl))) segs
  done;
  Buffer.add_string out (Printf.sprintf "| left=%d fail=%s" (List.length !st.r_buf) (bool_s !st.r_failed));
  if !disagree <> "" then Buffer.add_string out (" DISAGREE:" ^ !disagree);
  print_endline (Buffer.contents out)

let zeros k = List.init k (fun _ -> N0)

let run_plan (f : string array) =
  let client = f.(1) = "1" in
  let nev = int_of_string f.(2) in
  let evs = List.init nev (fun i ->
    match String.split_on_char ':' f.(3 + i) with
    | ["W"; m; l] -> WWrite (n_of_int (int_of_string m), zeros (int_of_string l))
    | ["C"; p] -> WCtl (n_of_int (int_of_string p))
    | _ -> failwith "bad event") in
  let l = plan_events client w_init evs in
  print_endline (String.concat " " (List.map (fun p ->
    Printf.sprintf "%d:%d:%d:%d" (int_of_n p.p_proto) (int_of_n p.p_seq) (int_of_n p.p_frag) (List.length p.p_payload)) l))

let run_read (f : string array) =
  let salt = int_of_string f.(1) in
  let npay = int_of_string f.(2) in
  let off = ref 0 in
  let pays = List.init npay (fun i ->
    let l = int_of_string f.(3 + i) in
    let o = !off in off := o + l;
    List.init l (fun j -> byte_tab.(pat_byte salt (o + j)))) in
  let nrd = int_of_string f.(3 + npay) in
  let st = ref { rd_unread = []; rd_queue = [] } in
  let pending = ref pays in
  let out = ref [] in
  for i = 0 to nrd - 1 do
    match String.split_on_char ':' f.(4 + npay + i) with
    | [k; nobs] ->
      let k = int_of_string k and nobs = int_of_string nobs in
      let avail0 = List.length !st.rd_unread + List.fold_left (fun a p -> a + List.length p) 0 !st.rd_queue in
      (* smallest arrival count j that explains nobs = min k avail_j; all pending if none does *)
      let rec pick j avail rest =
        if min k avail = nobs && (nobs = k || true) then j
        else match rest with
          | [] -> j
          | p :: t -> pick (j + 1) (avail + List.length p) t in
      let j = pick 0 avail0 !pending in
      let st_j = { rd_unread = !st.rd_unread; rd_queue = !st.rd_queue @ takel j !pending } in
      let (o, st') = read1 (nat_of_int k) st_j in
      st := st'; pending := drop j !pending;
      out := Printf.sprintf "%d:%s" (List.length o) (md5 o) :: !out
    | _ -> failwith "bad read"
  done;
  print_endline (String.concat " " (List.rev !out))

let () =
  let cases = open_in Sys.argv.(1) in
  iter_lines cases (fun line ->
    let f = Array.of_list (split_ws line) in
    if Array.length f = 0 then print_endline "?" else
    match f.(0) with
    | "FRAG" -> print_endline (string_of_int (int_of_nat (frag_size (n_of_int (int_of_string f.(1))))))
    | "SEG" -> run_seg f
    | "PLAN" -> run_plan f
    | "READ" -> run_read f
    | _ -> print_endline "?")
