(* Model runner for C12.  usage: c12_model cases.txt impl.txt > model.txt
   G <allow> <users> <rules> <proxies>   sets the configuration      -> "-"
   L <domain> <ip>                       the reading of a domain string as an IP literal by Go's resolver and
                                         dialer (netip.ParseAddr, zone dropped, unmapped), supplied by the driver;
                                         strings without an L line are no literals                  -> "-"
   The model runs with fx = tree_fixed (regenerated probe: is fixes/C12-domain-literal.diff in the tree?).
   F <user> <proto_ok> <data>            FindAction                  -> "<action> <proxy|nil>"
       (the draw of mrand.Intn is not observable: the implementation's line is printed iff some index explains it)
   S <user> <data>                       CONNECT through the real server -> "<reply> <connection opened>"
   R <user> <stop> <pkt,pkt,...>         relay run                   -> "sent <indexes>" *)
open Model
open Common

let split c s = if s = "." then [] else String.split_on_char c s
let hx s = bytes_of_hex s

let parse_iprange s =
  if s = "*" then IpStar else if s = "!" then IpBad else
  match String.split_on_char '/' s with
  | [h; o] -> IpCidr (hx h, n_of_int (int_of_string o))
  | _ -> IpBad

let parse_rule s =
  match String.split_on_char '|' s with
  | [ips; doms; act; px] ->
    { r_ips = List.map parse_iprange (split ',' ips);
      r_doms = List.map hx (split ',' doms);
      r_action = n_of_int (int_of_string act);
      r_proxy_names = List.map hx (split ',' px) }
  | _ -> failwith ("bad rule " ^ s)

let parse_user s =
  match String.split_on_char ':' s with
  | [n; f] -> (hx n, { u_priv = f.[0] = '1'; u_loop = f.[1] = '1' })
  | _ -> failwith "bad user"

let parse_cfg allow users rules proxies =
  { c_allow_loop_dest = (allow = "1");
    c_users = List.map parse_user (split ',' users);
    c_rules = List.map parse_rule (split ';' rules);
    c_proxies = List.map hx (split ',' proxies) }

let render (a, p) =
  Printf.sprintf "%d %s" (int_of_n a) (match p with None -> "nil" | Some s -> hex_of_bytes s)

let lits : (string, n list) Hashtbl.t = Hashtbl.create 64
let lit (s : n list) : n list option = Hashtbl.find_opt lits (hex_of_bytes s)
let fx = tree_fixed

let () =
  let cases = open_in Sys.argv.(1) and impl = open_in Sys.argv.(2) in
  let cfg = ref (parse_cfg "0" "." "." ".") in
  iter_lines cases (fun line ->
    let obs = (try input_line impl with End_of_file -> "") in
    match split_ws line with
    | ["L"; dom; ip] -> Hashtbl.replace lits (hex_of_bytes (hx dom)) (hx ip); print_endline "-"
    | ["G"; allow; users; rules; proxies] -> cfg := parse_cfg allow users rules proxies; print_endline "-"
    | ["F"; user; proto; data] ->
      let run i = render (find_action fx lit !cfg (proto = "1") (hx user) (hx data) (n_of_int i)) in
      let l0 = run 0 in
      if obs = l0 then print_endline l0
      else begin
        let rec try_idx i = if i > 8 then l0 else let l = run i in if l = obs then l else try_idx (i + 1) in
        print_endline (try_idx 1)
      end
    | ["S"; user; data] ->
      let (a, _) = find_action fx lit !cfg true (hx user) (hx data) N0 in
      if a = aCT_REJECT then print_endline "2 0" else if a = aCT_DIRECT then print_endline "0 1" else print_endline "? ?"
    | ["R"; user; stop; pkts] ->
      let ps = List.map hx (String.split_on_char ',' pkts) in
      let u = hx user and st = (stop = "1") in
      (* indexes of the datagrams sent, until the loop stops *)
      let rec go i l acc = match l with
        | [] -> List.rev acc
        | p :: r -> (match relay_step fx lit !cfg u st p with
                     | RSent _ -> go (i + 1) r (i :: acc)
                     | RDropped -> go (i + 1) r acc
                     | RStop -> List.rev acc) in
      let sent = go 0 ps [] in
      (* consistency with relay_run *)
      if List.length (relay_run fx lit !cfg u st ps) <> List.length sent then print_endline "relay_run/relay_step disagree"
      else print_endline (String.concat " " ("sent" :: List.map string_of_int sent))
    | _ -> print_endline "?")
