(* Model runner for C09.  usage: c09_model cases.txt impl.txt > model.txt
   Every case kind is deterministic: the runner prints what model/Wire.v computes.
     K p            -> s d a da le          (protocol type predicates)
     N hex24        -> hex                   (nonce_inc)
     MS 7 fields    -> hex32                 (marshal_session)
     MD 14 fields   -> hex32                 (marshal_data)
     US hex         -> OK 7 fields | ERR     (unmarshal_session, clock-independent part)
     UD hex         -> OK 14 fields | ERR    (unmarshal_data)
     RK s1 .. sn    -> reply key (salt) after each authentic segment (sess_input) *)
open Model
open Common

let n = n_of_dec
let d = dec_of_n

let () =
  let cases = open_in Sys.argv.(1) in
  iter_lines cases (fun line ->
    match split_ws line with
    | ["K"; p] ->
      let p = n p in
      Printf.printf "%s %s %s %s %s\n" (bool_s (is_session p)) (bool_s (is_data p)) (bool_s (is_ack p))
        (bool_s (is_data_ack p)) (bool_s (is_low_entropy p))
    | ["N"; h] -> print_endline (hex_of_bytes (nonce_inc (bytes_of_hex h)))
    | ["MS"; p; ts; sid; seq; st; pl; sl] ->
      print_endline (hex_of_bytes (marshal_session
        { s_proto = n p; s_ts = n ts; s_sid = n sid; s_seq = n seq; s_status = n st; s_plen = n pl; s_slen = n sl }))
    | ["MD"; p; ts; sid; seq; un; win; fr; pre; pl; sl; mode; mask; el; rot] ->
      print_endline (hex_of_bytes (marshal_data
        { d_proto = n p; d_mode = n mode; d_ts = n ts; d_sid = n sid; d_seq = n seq; d_unack = n un; d_win = n win;
          d_frag = n fr; d_prefix = n pre; d_plen = n pl; d_slen = n sl; d_mask = n mask; d_elen = n el; d_rot = n rot }))
    | ["US"; h] ->
      (match unmarshal_session (bytes_of_hex h) with
       | None -> print_endline "ERR"
       | Some m -> Printf.printf "OK %s %s %s %s %s %s %s\n" (d m.s_proto) (d m.s_ts) (d m.s_sid) (d m.s_seq)
                     (d m.s_status) (d m.s_plen) (d m.s_slen))
    | ["UD"; h] ->
      (match unmarshal_data (bytes_of_hex h) with
       | None -> print_endline "ERR"
       | Some m -> Printf.printf "OK %s %s %s %s %s %s %s %s %s %s %s %s %s %s\n" (d m.d_proto) (d m.d_ts) (d m.d_sid)
                     (d m.d_seq) (d m.d_unack) (d m.d_win) (d m.d_frag) (d m.d_prefix) (d m.d_plen) (d m.d_slen)
                     (d m.d_mode) (d m.d_mask) (d m.d_elen) (d m.d_rot))
    | "RK" :: salts ->
      (* the reply key after each authentic segment: sess_run over every prefix *)
      let rec go st acc = function
        | [] -> List.rev acc
        | k :: t -> let st' = sess_input st k in
                    go st' ((match st' with Some x -> d x | None -> "NONE") :: acc) t in
      print_endline (String.concat " " (go None [] (List.map n salts)))
    | _ -> print_endline "?")
