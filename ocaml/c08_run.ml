(* Model runner for C08.  usage: c08_model cases.txt impl.txt > model.txt
   Deterministic cases print the model's value; for cache lookups (whose jitter draw is
   not observable) the runner is an acceptor: it prints the implementation's line when
   some jitter in [0, max) explains it and the model's own prediction otherwise. *)
open Model
open Common

let refresh = keyRefreshInterval_ns
let valid = cacheValidInterval_ns
let jmax = int_of_z cacheValidMaxJitterMs

let () =
  let cases = open_in Sys.argv.(1) and impl = open_in Sys.argv.(2) in
  let cache : entry option ref = ref None and dec : entry option ref = ref None in
  let zs l = String.concat " " (List.map dec_of_z l) in
  iter_lines cases (fun line ->
    let obs = (try input_line impl with End_of_file -> "") in
    match split_ws line with
    | ["E"; t] ->
      let t = z_of_dec t in
      Printf.printf "%s %s\n" (dec_of_z (epoch refresh t)) (zs (slots refresh t))
    | ["W"; v; tg; m] ->
      Printf.printf "0%s\n" (bool_s (within_range32 (z_of_dec v) (z_of_dec tg) (z_of_dec m)))
    | ["T"; a; b] ->
      Printf.printf "0%s\n" (bool_s (timestamp_ok (z_of_dec a) (z_of_dec b)))
    | ["M"; t] -> print_endline (dec_of_z (minute (z_of_dec t)))
    | ["C"] -> cache := None; dec := None; print_endline "-"
    | ["L"; now] ->
      let now = z_of_dec now in
      let render j =
        let ((reused, e), c') = cache_lookup refresh valid !cache now (z_of_int j) in
        (Printf.sprintf "0%s %s %s %s" (bool_s reused) (dec_of_z e.e_epoch) (dec_of_z e.e_create) (zs e.e_keys), c') in
      let (l0, c0) = render 0 and (l1, c1) = render (jmax - 1) in
      if obs = l0 then (cache := c0; print_endline l0)
      else if obs = l1 then (cache := c1; print_endline l1)
      else (cache := c0; print_endline l0)
    | ["D"; now; sender_slot] ->
      let now = z_of_dec now and ss = z_of_dec sender_slot in
      let render j =
        let ((e, d'), c') = decryptor_lookup refresh valid !dec !cache now (z_of_int j) in
        let ok = List.mem ss e.e_keys in
        (Printf.sprintf "0%s %s %s" (bool_s ok) (dec_of_z e.e_epoch) (dec_of_z e.e_create), d', c') in
      let (l0, d0, c0) = render 0 and (l1, d1, c1) = render (jmax - 1) in
      if obs = l0 then (dec := d0; cache := c0; print_endline l0)
      else if obs = l1 then (dec := d1; cache := c1; print_endline l1)
      else (dec := d0; cache := c0; print_endline l0)
    | _ -> print_endline "?")
