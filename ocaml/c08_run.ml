(* Model runner for C08.  usage: c08_model cases.txt impl.txt > model.txt
   Deterministic cases print the model's value; for cache lookups (whose jitter draw is
   not observable) the runner is an acceptor: it prints the implementation's line when
   some jitter in [0, max) explains it and the model's own prediction otherwise. *)
open Model
open Common

let refresh = keyRefreshInterval_ns
let valid = cacheValidInterval_ns
let jmax = int_of_z cacheValidMaxJitterMs
let window = packetUnderlayScheduleWindow_ns

let () =
  let cases = open_in Sys.argv.(1) and impl = open_in Sys.argv.(2) in
  let cache : entry option ref = ref None and dec : entry option ref = ref None in
  let zs l = String.concat " " (List.map dec_of_z l) in
  iter_lines cases (fun line ->
    let obs = (try input_line impl with End_of_file -> "") in
    match split_ws line with
    | ["E"; t] ->
      let t = z_of_dec t in
      Printf.printf "%s %s\n" (dec_of_z (epoch refresh t)) (zs (slots refresh t))
    | ["W"; v; tg; m] ->
      Printf.printf "0%s\n" (bool_s (within_range32 (z_of_dec v) (z_of_dec tg) (z_of_dec m)))
    | ["T"; a; b] ->
      Printf.printf "0%s\n" (bool_s (timestamp_ok (z_of_dec a) (z_of_dec b)))
    | ["M"; t] -> print_endline (dec_of_z (minute (z_of_dec t)))
    (* ---- age of the key-holding client underlay ---- *)
    | ["K"] -> print_endline (dec_of_z window)
    | ["P"; age] ->
      let takes = underlay_takes_sessions window (z_of_dec age) in
      Printf.printf "%s%s\n" (bool_s takes) (bool_s (not takes))
    | ["U"; c; t_dial; t_send; skew] ->
      (* a session scheduled at t_dial onto the underlay created at c; request sent at t_send; server skew away *)
      let c = z_of_dec c and t_dial = z_of_dec t_dial and t_send = z_of_dec t_send and skew = z_of_dec skew in
      let server = xb_zadd t_send skew in
      Printf.printf "%s %s %s %s%s\n"
        (bool_s (underlay_takes_sessions window (xb_zadd t_dial (xb_zopp c))))
        (dec_of_z (epoch refresh c)) (dec_of_z (minute t_send))
        (bool_s (key_found refresh (epoch refresh c) server)) (bool_s (timestamp_ok server t_send))
    | ["X"; c; t_dial; skew] ->
      (* end to end against a real server mux whose clock is skew ahead *)
      let c = z_of_dec c and t_dial = z_of_dec t_dial and skew = z_of_dec skew in
      print_endline (bool_s (underlay_takes_sessions window (xb_zadd t_dial (xb_zopp c)) && open_request_ok refresh c t_dial skew))
    | ["S"; _] -> print_endline "1"   (* stream underlay: no time slot is consulted after the first segment *)
    | ["C"] -> cache := None; dec := None; print_endline "-"
    | ["L"; now] ->
      let now = z_of_dec now in
      let render j =
        let ((reused, e), c') = cache_lookup refresh valid !cache now (z_of_int j) in
        (Printf.sprintf "0%s %s %s %s" (bool_s reused) (dec_of_z e.e_epoch) (dec_of_z e.e_create) (zs e.e_keys), c') in
      let (l0, c0) = render 0 and (l1, c1) = render (jmax - 1) in
      if obs = l0 then (cache := c0; print_endline l0)
      else if obs = l1 then (cache := c1; print_endline l1)
      else (cache := c0; print_endline l0)
    | ["D"; now; sender_slot] ->
      let now = z_of_dec now and ss = z_of_dec sender_slot in
      let render j =
        let ((e, d'), c') = decryptor_lookup refresh valid !dec !cache now (z_of_int j) in
        let ok = List.mem ss e.e_keys in
        (Printf.sprintf "0%s %s %s" (bool_s ok) (dec_of_z e.e_epoch) (dec_of_z e.e_create), d', c') in
      let (l0, d0, c0) = render 0 and (l1, d1, c1) = render (jmax - 1) in
      if obs = l0 then (dec := d0; cache := c0; print_endline l0)
      else if obs = l1 then (dec := d1; cache := c1; print_endline l1)
      else (dec := d0; cache := c0; print_endline l0)
    | _ -> print_endline "?")
