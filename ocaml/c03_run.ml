(* Model runner for C03.  usage: c03_model cases.txt impl.txt > model.txt
   W <stamp_us>          the bounded wait of closeWithError: prints its length in microseconds when lastSend is
                         stamped after <stamp_us> (0 = never): iterations x tick, or the first poll after the stamp
   S <T|U> <n> <sent> <closed> <have> <empty> <eager>
                         abstract schedule of one scenario (see model/CloseProto.v, [canonical]): n sequenced
                         segments, <sent> of them handed to the network before the close request, the peer
                         endpoint had received the listed segments (ranges a-b,c,...; "-" = none) when it
                         received the close request (<closed> = 1); <eager> = 1: the peer application read while the
                         data arrived, 0: it read nothing before the close request had arrived (receiver backlog).  Prints "EOF k" / "ERROR k" / "RUNNING k":
                         how Read ends and how many segments the application has read before
                         (not counting trailing segments listed in <empty>: they carry no payload). *)
open Model
open Common

let parse_ranges (s : string) : int list =
  if s = "-" then [] else
  List.concat_map (fun part ->
    match String.split_on_char '-' part with
    | [a] -> [int_of_string a]
    | [a; b] -> let a = int_of_string a and b = int_of_string b in List.init (b - a + 1) (fun i -> a + i)
    | _ -> failwith "range") (String.split_on_char ',' s)

let () =
  let cases = open_in Sys.argv.(1) in
  let iters = int_of_z c03_closeWaitIterations and tick_ns = int_of_z c03_closeWaitTickNs in
  iter_lines cases (fun line ->
    match split_ws line with
    | ["W"; stamp] ->
      let stamp = int_of_string stamp in
      let tick_us = tick_ns / 1000 in
      let total = iters * tick_us in
      if stamp = 0 || stamp >= total then Printf.printf "%d\n" total
      else Printf.printf "%d\n" (((stamp + tick_us - 1) / tick_us) * tick_us)
    | ["S"; tr; n; sent; closed; have; empty; eager] ->
      let n = int_of_string n and sent = int_of_string sent in
      let tr = if tr = "T" then TCP else UDP in
      let c = current_cfg tr (n_of_int n) (n_of_int (n + 2)) N0 in
      (match predict c (nat_of_int sent) (List.map nat_of_int (parse_ranges have)) (closed = "1") (eager = "1") with
       | None -> print_endline "UNEXPLAINED"
       | Some st ->
         let empty = parse_ranges empty in
         let rec norm k = if k > 0 && List.mem (k - 1) empty then norm (k - 1) else k in
         let k = norm (int_of_n (segments_read st)) in
         (match outcome_of st with
          | OEof -> Printf.printf "EOF %d\n" k
          | OError -> Printf.printf "ERROR %d\n" k
          | ORunning -> Printf.printf "RUNNING %d\n" k))
    | _ -> print_endline "?")
