(* Shared glue for extracted-model runners.  Linked after model.ml (extracted with
   ExtrOcamlBasic only: positive/N/Z/nat stay the Coq datatypes). *)
open Model

let rec pos_of_int (i : int) : positive =
  if i <= 1 then XH else if i land 1 = 0 then XO (pos_of_int (i lsr 1)) else XI (pos_of_int (i lsr 1))
let n_of_int (i : int) : n = if i <= 0 then N0 else Npos (pos_of_int i)
let z_of_int (i : int) : z = if i = 0 then Z0 else if i > 0 then Zpos (pos_of_int i) else Zneg (pos_of_int (- i))
let rec int_of_pos (p : positive) : int = match p with XH -> 1 | XO q -> 2 * int_of_pos q | XI q -> 2 * int_of_pos q + 1
let int_of_n (x : n) : int = match x with N0 -> 0 | Npos p -> int_of_pos p
let int_of_z (x : z) : int = match x with Z0 -> 0 | Zpos p -> int_of_pos p | Zneg p -> - (int_of_pos p)
let rec nat_of_int (i : int) : nat = if i <= 0 then O else S (nat_of_int (i - 1))
let rec int_of_nat (m : nat) : int = match m with O -> 0 | S k -> 1 + int_of_nat k

(* arbitrary-precision decimal *)
let z10 = z_of_int 10
let z_of_dec (s : string) : z =
  let s = String.trim s in
  let neg = String.length s > 0 && s.[0] = '-' in
  let start = if neg || (String.length s > 0 && s.[0] = '+') then 1 else 0 in
  let acc = ref Z0 in
  for i = start to String.length s - 1 do
    let c = s.[i] in
    if c < '0' || c > '9' then failwith ("bad decimal: " ^ s);
    acc := xb_zadd (xb_zmul !acc z10) (z_of_int (Char.code c - 48))
  done;
  if neg then xb_zopp !acc else !acc
let n_of_dec (s : string) : n = xb_n_of_z (z_of_dec s)
let dec_of_z (x : z) : string =
  let neg = (match x with Zneg _ -> true | _ -> false) in
  let x = if neg then xb_zopp x else x in
  if x = Z0 then "0" else begin
    let b = Buffer.create 20 in
    let r = ref x in
    let digits = ref [] in
    while !r <> Z0 do
      digits := int_of_z (xb_zmod !r z10) :: !digits;
      r := xb_zdiv !r z10
    done;
    if neg then Buffer.add_char b '-';
    List.iter (fun d -> Buffer.add_char b (Char.chr (48 + d))) !digits;
    Buffer.contents b
  end
let dec_of_n (x : n) : string = dec_of_z (xb_z_of_n x)

(* bytes as lowercase hex strings; "-" denotes the empty string on a line *)
let hexval c = match c with
  | '0'..'9' -> Char.code c - 48 | 'a'..'f' -> Char.code c - 87 | 'A'..'F' -> Char.code c - 55
  | _ -> failwith "bad hex"
let byte_tab : n array = Array.init 256 n_of_int
let bytes_of_hex (s : string) : n list =
  if s = "-" then [] else begin
    let l = String.length s / 2 in
    let rec go i acc = if i < 0 then acc else go (i - 1) (byte_tab.(hexval s.[2*i] * 16 + hexval s.[2*i+1]) :: acc) in
    go (l - 1) []
  end
let hex_of_bytes (l : n list) : string =
  if l = [] then "-" else begin
    let b = Buffer.create 64 in
    List.iter (fun x -> Buffer.add_string b (Printf.sprintf "%02x" (int_of_n x))) l;
    Buffer.contents b
  end
(* big numbers as hex (e.g. 64-bit words) *)
let n_of_hex (s : string) : n =
  let acc = ref N0 in
  String.iter (fun c -> acc := xb_nadd (xb_nmul !acc (n_of_int 16)) (n_of_int (hexval c))) s; !acc
let hex_of_n (x : n) : string =
  if x = N0 then "0" else begin
    let r = ref x and ds = ref [] in
    let n16 = n_of_int 16 in
    while !r <> N0 do ds := int_of_n (xb_nmod !r n16) :: !ds; r := xb_ndiv !r n16 done;
    String.concat "" (List.map (Printf.sprintf "%x") !ds)
  end

let split_ws (s : string) : string list =
  List.filter (fun x -> x <> "") (String.split_on_char ' ' (String.trim s))
let iter_lines (ic : in_channel) (f : string -> unit) : unit =
  try while true do f (input_line ic) done with End_of_file -> ()
let bool_s b = if b then "1" else "0"
