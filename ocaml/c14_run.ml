(* Model runner for C14.  usage: c14_model cases.txt impl.txt > model.txt
   Every case is deterministic: the padding draws of the implementation are read off the wire by the
   Go driver and are part of the case line.
     F mtu t mode                      -> max_fragment                      "<n>" | "E"
     L n mode                          -> le_encoded_len                    "<n>" | "E"
     P mtu t frag existing             -> max_padding
     Q mtu t frag existing cfg         -> max_padding_tp (cfg "-" = unset)
     W isClient first clientUsedLE mtu t cfgmode n
                                       -> "<written> <outcome> | proto frag plen ext body | ..."  (cfgmode "-" = no pattern)
     D mtu isClient kind frag plen ext body cmid cend p1 p2
                                       -> "<dgram_len> <draws within maxima 0/1>"            *)
open Model
open Common

let opt_z s = if s = "-" then None else Some (z_of_dec s)
let show_opt = function None -> "E" | Some v -> dec_of_z v
let b s = s = "1"

let () =
  let cases = open_in Sys.argv.(1) in
  let buf = Buffer.create 4096 in
  iter_lines cases (fun line ->
    match split_ws line with
    | ["F"; mtu; t; mode] -> print_endline (show_opt (max_fragment (z_of_dec mtu) (z_of_dec t) (z_of_dec mode)))
    | ["L"; n; mode] -> print_endline (show_opt (le_encoded_len (z_of_dec n) (z_of_dec mode)))
    | ["P"; mtu; t; frag; ex] ->
      print_endline (dec_of_z (max_padding (z_of_dec mtu) (z_of_dec t) (z_of_dec frag) (z_of_dec ex)))
    | ["Q"; mtu; t; frag; ex; cfg] ->
      print_endline (dec_of_z (max_padding_tp (z_of_dec mtu) (z_of_dec t) (z_of_dec frag) (z_of_dec ex) (opt_z cfg)))
    | ["W"; ic; first; used; mtu; t; cfgmode; n] ->
      let mode = effective_mode (b ic) (opt_z cfgmode) (b used) in
      let ((segs, w), o) = write (b ic) (b first) (z_of_dec mtu) (z_of_dec t) mode (z_of_dec n) in
      Buffer.clear buf;
      Buffer.add_string buf (dec_of_z w); Buffer.add_char buf ' '; Buffer.add_string buf (dec_of_z (outcome_code o));
      List.iter (fun s ->
        Buffer.add_string buf " | ";
        Buffer.add_string buf (String.concat " " (List.map dec_of_z
          [proto_of (b ic) s.s_kind; s.s_frag; s.s_plen; s.s_ext; s.s_body]))) segs;
      print_endline (Buffer.contents buf)
    | ["D"; mtu; _ic; kind; frag; plen; ext; body; cmid; cend; p1; p2] ->
      let s = { s_kind = kind_of_code (z_of_dec kind); s_frag = z_of_dec frag; s_plen = z_of_dec plen;
                s_ext = z_of_dec ext; s_body = z_of_dec body } in
      let mtu = z_of_dec mtu and p1 = z_of_dec p1 and p2 = z_of_dec p2 in
      Printf.printf "%s %s\n" (dec_of_z (dgram_len s p1 p2))
        (bool_s (draws_okb mtu c14_TransportPacket (opt_z cmid) (opt_z cend) s p1 p2))
    | _ -> print_endline "?")
