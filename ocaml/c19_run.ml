(* Model runner for C19.  usage: c19_model cases.txt impl.txt > model.txt
   Counter land: one current counter [c] and one auxiliary counter [d] (target of loads); every line is an
   operation of the real metrics.Counter and the runner prints the model's state after it.
   Quota land: a registry user -> (upload history, download history) and checkQuota decisions. *)
open Model
open Common

let zs = dec_of_z
let ent e = Printf.sprintf "%s:%s:%s" (zs e.e_t) (zs e.e_d) (zs e.e_l)
let rec last = function [] -> None | [x] -> Some x | _ :: r -> last r
let full c =
  String.concat " " (("F " ^ zs c.c_value ^ " " ^ zs c.c_op ^ " " ^ string_of_int (List.length c.c_hist)) :: List.map ent c.c_hist)
let short c =
  Printf.sprintf "S %s %s %d %s %s" (zs c.c_value) (zs c.c_op) (List.length c.c_hist) (zs (hsum c.c_hist))
    (match last c.c_hist with None -> "-" | Some e -> ent e)
let due c = xb_zmod c.c_op c19_RollUpInterval = Z0
let after_add c = if List.length c.c_hist <= 48 || due c then full c else short c

let rec entries l = match l with
  | t :: d :: lb :: r -> { e_t = z_of_dec t; e_d = z_of_dec d; e_l = z_of_dec lb } :: entries r
  | _ -> []

let rec quotas l = match l with
  | d :: m :: r -> { q_days = z_of_dec d; q_mb = z_of_dec m } :: quotas r
  | _ -> []

let () =
  let cases = open_in Sys.argv.(1) in
  let c = ref counter0 and d = ref counter0 in
  let reg : urec list option ref = ref None in
  let ups : (string, entry list) Hashtbl.t = Hashtbl.create 64 and downs : (string, entry list) Hashtbl.t = Hashtbl.create 64 in
  iter_lines cases (fun line ->
    match split_ws line with
    | ["N"; op] -> c := { counter0 with c_op = z_of_dec op }; print_endline "-"
    | ["M"; op] -> d := { counter0 with c_op = z_of_dec op }; print_endline "-"
    | ["X"] -> let t = !c in c := !d; d := t; print_endline "-"
    | ["O"; op] -> c := { !c with c_op = z_of_dec op }; print_endline "-"
    | ["A"; delta; t; now] ->
      c := cadd !c (z_of_dec delta) (z_of_dec t) (z_of_dec now); print_endline (after_add !c)
    | ["V"] -> let (c', v) = load_value !c in c := c'; print_endline (zs v ^ " | " ^ short !c)
    | ["Q"; t1; t2] -> let (c', v) = query !c (z_of_dec t1) (z_of_dec t2) in c := c'; print_endline (zs v ^ " | " ^ short !c)
    | ["R"; now] -> c := roll_up_if_due (z_of_dec now) !c; print_endline (full !c)
    | ["P"; from; to_; dur; trunc; now] ->
      c := { !c with c_hist = do_roll_up (z_of_dec from) (z_of_dec to_) (z_of_dec dur) (z_of_dec trunc) (z_of_dec now) !c.c_hist };
      print_endline (full !c)
    | "S" :: value :: _ :: rest -> c := { !c with c_value = z_of_dec value; c_hist = entries rest }; print_endline "-"
    | ["L"; same; now] ->
      let (c', (v, h)) = dump !c in
      c := c'; d := load_pb !d (same = "1") v h (z_of_dec now);
      print_endline (full !c ^ " || " ^ full !d)
    | ["F"] -> print_endline (full !c)
    | ["KC"] -> Hashtbl.reset ups; Hashtbl.reset downs; print_endline "-"
    | "KH" :: user :: which :: _ :: rest ->
      Hashtbl.replace (if which = "0" then ups else downs) user (entries rest); print_endline "-"
    | "KQ" :: now :: pol :: polname :: user :: _ :: rest ->
      let m = Hashtbl.fold (fun u up acc ->
                match Hashtbl.find_opt downs u with Some dn -> (bytes_of_hex u, (up, dn)) :: acc | None -> acc) ups [] in
      let p = if pol = "1" then Some { p_name = bytes_of_hex polname; p_quotas = quotas rest } else None in
      print_endline (match check_quota p (bytes_of_hex user) m (z_of_dec now) with
                     | QAllow -> "A" | QAllowErr -> "AE" | QRefuse -> "R" | QPanic -> "P")
    | ["KV"; days; mb] -> print_endline (bool_s (validate_quota (z_of_dec days) (z_of_dec mb)))
    | "RS" :: nseg :: rest ->
      let rec split i l acc = if i = 0 then (List.rev acc, l) else (match l with x :: t -> split (i - 1) t (x :: acc) | [] -> (List.rev acc, [])) in
      let (segs, rest') = split (int_of_string nseg) rest [] in
      let wants = (match rest' with _ :: w -> List.map int_of_string w | [] -> []) in
      let st = ref { r_queue = List.map bytes_of_hex segs; r_unread = []; r_counted = Z0 } in
      let outs = List.map (fun w ->
        let (r, st') = read !st (nat_of_int w) in
        st := st';
        hex_of_bytes (returned r) ^ ":" ^ zs st'.r_counted) wants in
      print_endline (String.concat " " outs)
    | ["GN"] -> reg := None; print_endline "-"
    | "GR" :: _ :: rest ->
      let rec users l = match l with
        | name :: cred :: nq :: r ->
          let k = 2 * int_of_string nq in
          let rec split i l acc = if i = 0 then (List.rev acc, l) else (match l with x :: t -> split (i - 1) t (x :: acc) | [] -> (List.rev acc, [])) in
          let (qs, r') = split k r [] in
          { ur_name = bytes_of_hex name; ur_cred = z_of_dec cred; ur_quotas = quotas qs } :: users r'
        | _ -> [] in
      reg := set_users !reg (users rest); print_endline "-"
    | ["GP"; user] ->
      print_endline (match policy_in_force !reg (bytes_of_hex user) with
                     | None -> "none"
                     | Some p -> String.concat " " (string_of_int (List.length p.p_quotas) ::
                                   List.concat_map (fun q -> [zs q.q_days; zs q.q_mb]) p.p_quotas))
    | _ -> print_endline "?")
