(* Runner for the validation of the translator (driver xl).
     xl_model [-model] cases.txt impl.txt > out.txt
   Case line: <function> <arg> ...  (decimal).  Without -model the TRANSLATED definition (gen/Translated.v) is
   evaluated: the line must equal what the real Go function returned (impl.txt).  With -model the MODEL function
   that proofs/Translated*Proofs.v prove equal to it is evaluated instead, and "-" is printed where the arguments
   are outside the range of that theorem (there the two may differ legitimately, e.g. Go's int wraps). *)
open Model
open Common

let model_mode = Array.length Sys.argv > 1 && Sys.argv.(1) = "-model"
let cases_path = if model_mode then Sys.argv.(2) else Sys.argv.(1)

let z = z_of_dec
let zs = dec_of_z
let nz s = xb_n_of_z (z_of_dec s)
let ns x = dec_of_z (xb_z_of_n x)
let opt = function None -> "NONE" | Some v -> zs v
(* a function that can panic: None is the panic (its equality theorem shows that the loop fuel, if any, suffices) *)
let optp = function None -> "PANIC" | Some v -> zs v
let zlt a b = xb_zltb a b
let p61 = z_of_dec "2305843009213693952"
let p63 = z_of_dec "9223372036854775808"
let p64 = z_of_dec "18446744073709551616"
let p32 = z_of_dec "4294967296"
let small s = let v = z s in zlt (xb_zopp p61) v && zlt v p61
let below s p = let v = z s in not (zlt v Z0) && zlt v p

let hexz h = if h = "-" then [] else List.map xb_z_of_n (bytes_of_hex h)
let zhex l = hex_of_bytes (List.map xb_n_of_z l)
let p8 = z_of_dec "256"
let p16 = z_of_dec "65536"

let xl (f : string) (a : string list) : string =
  match f, a with
  | "Min_int", [x; y] -> zs (xl_mathext_Min_int (z x) (z y))
  | "Max_int", [x; y] -> zs (xl_mathext_Max_int (z x) (z y))
  | "Abs_int", [x] -> zs (xl_mathext_Abs_int (z x))
  | "RepeatUint32", [v] -> zs (xl_mathext_RepeatUint32 (z v))
  | "pdepGeneric", [x; m] -> opt (xl_mathext_pdepGeneric (z x) (z m))
  | "pextGeneric", [x; m] -> opt (xl_mathext_pextGeneric (z x) (z m))
  | "maxFragmentSizeInternal", [mtu; t] -> zs (xl_protocol_maxFragmentSizeInternal (z mtu) (z t))
  | "maxPaddingSize", [mtu; t; fs; ex] -> zs (xl_protocol_maxPaddingSize (z mtu) (z t) (z fs) (z ex))
  | "buildLowEntropyParams", [m] -> let ((c, w), e) = xl_protocol_buildLowEntropyParams (z m) in zs c ^ " " ^ zs w ^ " " ^ bool_s e
  | "lowEntropyEncodedPayloadLen", [n; m] ->
    (match xl_protocol_lowEntropyEncodedPayloadLen (z n) (z m) with None -> "PANIC" | Some (v, e) -> zs v ^ " " ^ bool_s e)
  | "maxFragmentSize", [mtu; t; m] -> let (v, e) = xl_protocol_maxFragmentSize (z mtu) (z t) (z m) in zs v ^ " " ^ bool_s e
  | "increaseNonce", [en; nonce] ->
    (match xl_cipher_increaseNonce (en = "1") (List.map xb_z_of_n (bytes_of_hex nonce)) with
     | None -> "PANIC" | Some l -> hex_of_bytes (List.map xb_n_of_z l))
  | "isSessionProtocol", [p] -> bool_s (xl_protocol_isSessionProtocol (z p))
  | "isDataProtocol", [p] -> bool_s (xl_protocol_isDataProtocol (z p))
  | "isAckProtocol", [p] -> bool_s (xl_protocol_isAckProtocol (z p))
  | "isDataAckProtocol", [p] -> bool_s (xl_protocol_isDataAckProtocol (z p))
  | "isLowEntropyProtocol", [p] -> bool_s (xl_protocol_isLowEntropyProtocol (z p))
  | "isValidLowEntropyRotation", [r] -> bool_s (xl_protocol_isValidLowEntropyRotation (z r))
  | "lowBits", [n] -> optp (xl_protocol_lowBits (z n))
  | "rotateLowEntropyMask", [m; r; i] -> zs (xl_protocol_rotateLowEntropyMask (z m) (z r) (z i))
  | "lowEntropyChunkMask", [m; r; i] -> let (v, e) = xl_protocol_lowEntropyChunkMask (z m) (z r) (z i) in zs v ^ " " ^ bool_s e
  | "validateLowEntropyCodecParams", [m; hm; r] ->
    let ((c, w), e) = xl_protocol_validateLowEntropyCodecParams (z m) (z hm) (z r) in zs c ^ " " ^ zs w ^ " " ^ bool_s e
  | "Mid_uint32", [a; b; c] -> zs (xl_mathext_Mid_uint32 (z a) (z b) (z c))
  | "WithinRange_uint32", [v; t; m] -> bool_s (xl_mathext_WithinRange_uint32 (z v) (z t) (z m))
  | "sessionMarshal", [p; sid; seq; st; pl; sl; now] ->
    let (b, _) = xl_protocol_sessionStruct_Marshal (z p) Z0 (z sid) (z seq) (z st) (z pl) (z sl) (z now) in zhex b
  | "sessionUnmarshal", [h; now] ->
    (match xl_protocol_sessionStruct_Unmarshal (hexz h) Z0 Z0 Z0 Z0 Z0 Z0 Z0 (z now) with
     | None -> "PANIC"
     | Some (((((((err, p), ts), sid), seq), st), pl), sl) ->
       if err then "ERR" else String.concat " " (List.map zs [p; ts; sid; seq; st; pl; sl]))
  | "dataAckMarshal", [p; mo; sid; seq; un; win; fr; pre; pl; sl; ma; el; ro; now] ->
    let (b, _) = xl_protocol_dataAckStruct_Marshal (z p) Z0 (z mo) (z sid) (z seq) (z un) (z win) (z fr) (z pre) (z pl) (z sl)
                   (z ma) (z el) (z ro) (z now) in zhex b
  | _ -> "?"

let zmin a b = if zlt b a then b else a
let zmax a b = if zlt a b then b else a
let zabs a = if zlt a Z0 then xb_zopp a else a

let model (f : string) (a : string list) : string =
  match f, a with
  | "Min_int", [x; y] -> zs (zmin (z x) (z y))
  | "Max_int", [x; y] -> zs (zmax (z x) (z y))
  | "Abs_int", [x] -> if zlt (xb_zopp p63) (z x) then zs (zabs (z x)) else "-"
  | "RepeatUint32", [v] -> if below v p32 then ns (m_repeat32 (nz v)) else "-"
  | "pdepGeneric", [x; m] -> if below m p64 && below x p64 then ns (m_pdep_go (nz x) (nz m)) else "-"
  | "pextGeneric", [x; m] -> if below m p64 && below x p64 then ns (m_pext_go (nz x) (nz m)) else "-"
  | "maxFragmentSizeInternal", [mtu; t] -> if small mtu then zs (m_max_fragment_internal (z mtu) (z t)) else "-"
  | "maxPaddingSize", [mtu; t; fs; ex] ->
    if small mtu && small fs && small ex then zs (m_max_padding (z mtu) (z t) (z fs) (z ex)) else "-"
  | "buildLowEntropyParams", [m] ->
    (* C17's table (source bytes, one-bits) and C14's (source bytes) must both agree with the source *)
    (match m_mode_params (z m), m_src_bytes (z m) with
     | Some (c, w), Some sb -> if c = sb then zs c ^ " " ^ zs w ^ " 0" else "models-disagree"
     | None, None -> "0 0 1"
     | _ -> "models-disagree")
  | "lowEntropyEncodedPayloadLen", [n; m] ->
    if small n then (match m_le_encoded_len (z n) (z m) with Some v -> zs v ^ " 0" | None -> "0 1") else "-"
  | "maxFragmentSize", [mtu; t; m] ->
    if small mtu then (match m_max_fragment (z mtu) (z t) (z m) with Some v -> zs v ^ " 0" | None -> "0 1") else "-"
  | "increaseNonce", [en; nonce] -> if en = "1" && nonce <> "-" then hex_of_bytes (m_nonce_inc (bytes_of_hex nonce)) else "-"
  | "isSessionProtocol", [p] -> if below p p64 then bool_s (m_wire_is_session (nz p)) else "-"
  | "isDataProtocol", [p] -> if below p p64 then bool_s (m_wire_is_data (nz p)) else "-"
  | "isAckProtocol", [p] -> if below p p64 then bool_s (m_wire_is_ack (nz p)) else "-"
  | "isDataAckProtocol", [p] -> if below p p64 then bool_s (m_wire_is_data_ack (nz p)) else "-"
  | "isLowEntropyProtocol", [p] ->
    if below p p64 && m_wire_is_low_entropy (nz p) <> m_is_le_proto (z p) then "models-disagree" else bool_s (m_is_le_proto (z p))
  | "isValidLowEntropyRotation", [r] -> bool_s (m_valid_rotation (z r))
  | "lowBits", [n] -> if zlt (z n) Z0 then "-" else ns (m_lowbits (nz n))
  | "rotateLowEntropyMask", [m; r; i] ->
    if below m p64 && below i p63 && zlt (xb_zopp (xb_zadd p32 (z "1"))) (xb_zadd (z r) (z r)) && zlt (xb_zadd (z r) (z r)) p32
    then ns (m_rotate_mask (nz m) (z r) (nz i)) else "-"
  | "lowEntropyChunkMask", [m; r; i] ->
    if below m p64 && zlt (z i) p63 && zlt (xb_zopp p63) (z i) && zlt (xb_zopp (xb_zadd p32 (z "1"))) (xb_zadd (z r) (z r)) && zlt (xb_zadd (z r) (z r)) p32
    then (match m_chunk_mask (nz m) (z r) (z i) with Some v -> ns v ^ " 0" | None -> "0 1") else "-"
  | "validateLowEntropyCodecParams", [m; hm; r] ->
    if below hm p32 then (match m_validate_params (z m) (nz hm) (z r) with Some (c, w) -> zs c ^ " " ^ zs w ^ " 0" | None -> "0 0 1") else "-"
  | "Mid_uint32", [a; b; c] -> zs (m_mid3 (z a) (z b) (z c))
  | "WithinRange_uint32", [v; t; m] -> bool_s (m_within_range32 (z v) (z t) (z m))
  | "sessionMarshal", [p; sid; seq; st; pl; sl; now] ->
    hex_of_bytes (m_marshal_session (nz p) (xb_n_of_z (m_stamp (z now))) (nz sid) (nz seq) (nz st) (nz pl) (nz sl))
  | "sessionUnmarshal", [h; now] ->
    (match m_unmarshal_session (if h = "-" then [] else bytes_of_hex h) with
     | Some (p :: ts :: rest) when m_within_range32 (m_stamp (z now)) (xb_z_of_n ts) (z "1") ->
       String.concat " " (List.map ns (p :: ts :: rest))
     | _ -> "ERR")
  | "dataAckMarshal", [p; mo; sid; seq; un; win; fr; pre; pl; sl; ma; el; ro; now] ->
    hex_of_bytes (m_marshal_data (nz p) (nz mo) (xb_n_of_z (m_stamp (z now))) (nz sid) (nz seq) (nz un) (nz win) (nz fr) (nz pre)
                    (nz pl) (nz sl) (nz ma) (nz el) (nz ro))
  | _ -> "?"

let () =
  let cases = open_in cases_path in
  iter_lines cases (fun line ->
    match split_ws line with
    | f :: a -> print_endline ((if model_mode then model else xl) f a)
    | [] -> print_endline "?")
