(* Model runner for C11.  usage: c11_model cases.txt impl.txt > model.txt
   H <ncreds> <u1> <p1> ... <input>
       handle_auth on the byte stream <input>:  <reply chunks> <A|R|T> <bytes consumed>
   S <use_proxy> <csa> <ncreds> <u1> <p1> ... <input> <req>
       serve (ServeConn) on <input> (= authentication transcript ++ req, possibly cut):
       <reply chunks of the authentication stage> <dialed> <next stage ran> <request forwarded to the proxy>
   The last field is predicted when the next stage sees the test request <req> (or a prefix of it);
   for other leftovers the runner accepts the implementation's value (request parsing is not modelled).
   The model is the fixed code (legacy = false); set C11_MODEL_LEGACY=1 to print the pinned tree's rule. *)
open Model
open Common

let legacy = (try Sys.getenv "C11_MODEL_LEGACY" = "1" with Not_found -> false)

let chunks (l : n list list) : string =
  if l = [] then "-" else String.concat "," (List.map hex_of_bytes l)

let rec take_creds k fields acc =
  if k = 0 then (List.rev acc, fields) else
  match fields with
  | u :: p :: tl -> take_creds (k - 1) tl ((bytes_of_hex u, bytes_of_hex p) :: acc)
  | _ -> failwith "bad credential list"

let rec starts_with (pre : n list) (l : n list) : bool =
  match pre, l with
  | [], _ -> true
  | x :: p', y :: l' -> x = y && starts_with p' l'
  | _ :: _, [] -> false

let () =
  let cases = open_in Sys.argv.(1) and impl = open_in Sys.argv.(2) in
  iter_lines cases (fun line ->
    let obs = (try input_line impl with End_of_file -> "") in
    match split_ws line with
    | "H" :: nc :: fields ->
      let (creds, tl) = take_creds (int_of_string nc) fields [] in
      (match tl with
       | [input] ->
         let i = bytes_of_hex input in
         let r = handle_auth legacy creds i in
         let o = (match out r with Authenticated -> "A" | Rejected -> "R" | Truncated -> "T") in
         Printf.printf "%s %s %d\n" (chunks (replies r)) o (List.length i - List.length (rest r))
       | _ -> print_endline "?")
    | "S" :: up :: csa :: nc :: fields ->
      let (creds, tl) = take_creds (int_of_string nc) fields [] in
      (match tl with
       | [input; req] ->
         let i = bytes_of_hex input and rq = bytes_of_hex req in
         let up = (up = "1") and csa = (csa = "1") in
         let s = serve legacy up csa creds i in
         let fwd =
           if up && csa && s_dialed s then
             (match s_next s with
              | Some r when rq <> [] && starts_with rq r -> hex_of_bytes rq
              | Some r when rq <> [] && starts_with r rq -> "-"      (* the request was cut: nothing complete to forward *)
              | _ ->
                (* the next stage got bytes that are not the test request: request parsing is not
                   modelled here (C12/C18); accept what the implementation forwarded *)
                (match split_ws obs with [_; _; _; f] -> f | _ -> "-"))
           else "-" in
         Printf.printf "%s %s %s %s\n" (chunks (s_replies s)) (bool_s (s_dialed s))
           (bool_s (s_next s <> None)) fwd
       | _ -> print_endline "?")
    | _ -> print_endline "?")
