(* Model runner for C20.  usage: c20_model cases.txt impl.txt > model.txt
   Token grammar shared with harness/cmd/c20/main.go:
     bytes   = hex or -            obytes = N or S<hex>           oz = N or I<dec>      obool = N, T or F
     user    = oname opw ohpw rest   (on output a hash made by the toy H is H<hex of pre-image>)
     users   = count user..        pb = oport oproto orange       ports = N or L count pb..
     server  = ports users adv log mtu egress dns tp
     profile = oname (N or U user) rest
     client  = count profile.. active rpc socks5 adv log s5lan http httplan (N or L count bytes..)
   One output line per case line; see the match in the main loop for the case kinds. *)
open Model
open Common

let toks : string list ref = ref []
let next () = match !toks with [] -> failwith "short line" | t :: r -> toks := r; t

let rd_bytes () = bytes_of_hex (next ())
let rd_obytes () = let t = next () in
  if t = "N" then None else Some (let h = String.sub t 1 (String.length t - 1) in if h = "" then [] else bytes_of_hex h)
let rd_oz () = let t = next () in if t = "N" then None else Some (z_of_dec (String.sub t 1 (String.length t - 1)))
let rd_obool () = match next () with "N" -> None | "T" -> Some true | _ -> Some false
let rd_int () = int_of_string (next ())
let rd_bool () = next () = "1"
let rd_list f = let n = rd_int () in List.init n (fun _ -> f ())

(* a stored hash re-expressed in toy form by the driver: H<hex of pre-image> *)
let rd_hpw () = let t = next () in
  if t = "N" then None else
  let h = String.sub t 1 (String.length t - 1) in
  let b = if h = "" then [] else bytes_of_hex h in
  if t.[0] = 'H' then Some (toy_hash b) else Some b
let rd_z () = z_of_dec (next ())
let rd_quota () = let d = rd_z () in let m = rd_z () in { q_days = d; q_mb = m }
let rd_user () =
  let n = rd_obytes () in let p = rd_obytes () in let h = rd_hpw () in
  let q = rd_list rd_quota in let r = rd_bytes () in
  { u_name = n; u_pw = p; u_hpw = h; u_quotas = q; u_rest = r }
let rd_adv () = match next () with
  | "N" -> None
  | _ -> let raw = rd_bytes () in let iv = rd_bytes () in let ns = rd_oz () in
         Some { adv_raw = raw; adv_interval = iv; adv_interval_ns = ns }
let rd_tp () = match next () with
  | "N" -> None
  | _ -> let raw = rd_bytes () in let ok = rd_bool () in Some { tp_raw = raw; tp_ok = ok }
let rd_proxy () =
  let n = rd_bytes () in let pr = rd_z () in let h = rd_bytes () in let po = rd_z () in
  let au = rd_bytes () in let ap = rd_bytes () in
  { px_name = n; px_proto = pr; px_host = h; px_port = po; px_auth_user = au; px_auth_pw = ap }
let rd_rule () =
  let ips = rd_list rd_bool in let doms = rd_list rd_bytes in let act = rd_z () in let pn = rd_list rd_bytes in
  { ru_ip_ok = ips; ru_domains = doms; ru_action = act; ru_proxies = pn }
let rd_egress () = match next () with
  | "N" -> None
  | _ -> let raw = rd_bytes () in let ps = rd_list rd_proxy in let rs = rd_list rd_rule in
         Some { eg_raw = raw; eg_proxies = ps; eg_rules = rs }
let rd_host () = let d = rd_bytes () in let n = rd_bytes () in let ok = rd_bool () in
  { h_domain = d; h_norm = n; h_ip_ok = ok }
let rd_dns () = match next () with
  | "N" -> None
  | _ -> let raw = rd_bytes () in let hs = rd_list rd_host in Some { dns_raw = raw; dns_hosts = hs }
let rd_pb () =
  let p = rd_oz () in let pr = rd_oz () in let r = rd_obytes () in
  { pb_port = p; pb_proto = pr; pb_range = r }
let rd_server () =
  let ports = (match next () with "N" -> None | _ -> Some (rd_list rd_pb)) in
  let users = rd_list rd_user in
  let adv = rd_adv () in let log = rd_oz () in let mtu = rd_oz () in
  let eg = rd_egress () in let dns = rd_dns () in let tp = rd_tp () in
  { s_ports = ports; s_users = users; s_adv = adv; s_log = log; s_mtu = mtu; s_egress = eg; s_dns = dns; s_tp = tp }
let rd_ep () =
  let ip = rd_bytes () in let ipok = rd_bool () in let d = rd_bytes () in let dip = rd_bool () in
  let bs = rd_list rd_pb in
  { se_ip = ip; se_ip_ok = ipok; se_domain = d; se_domain_is_ip = dip; se_bindings = bs }
let rd_dialer () = match next () with
  | "N" -> None
  | _ -> let pr = rd_z () in let h = rd_bytes () in let po = rd_z () in let ha = rd_bool () in
         let u = rd_bytes () in let p = rd_bytes () in
         Some { dl_proto = pr; dl_host = h; dl_port = po; dl_has_auth = ha; dl_auth_user = u; dl_auth_pw = p }
let rd_profile () =
  let n = rd_obytes () in
  let u = (match next () with "N" -> None | _ -> Some (rd_user ())) in
  let sv = rd_list rd_ep in let mtu = rd_oz () in let mux = rd_oz () in let hs = rd_oz () in
  let tp = rd_tp () in let dl = rd_dialer () in
  let r = rd_bytes () in
  { p_name = n; p_user = u; p_servers = sv; p_mtu = mtu; p_mux = mux; p_hs = hs; p_tp = tp; p_dialer = dl; p_rest = r }
let rd_auth () = let raw = rd_bytes () in let u = rd_bytes () in let p = rd_bytes () in
  { au_raw = raw; au_user = u; au_pw = p }
let rd_client () =
  let ps = rd_list rd_profile in
  let active = rd_obytes () in let rpc = rd_oz () in let s5 = rd_oz () in let adv = rd_adv () in
  let log = rd_oz () in let s5lan = rd_obool () in let http = rd_oz () in let httplan = rd_obool () in
  let auth = (match next () with "N" -> None | _ -> Some (rd_list rd_auth)) in
  { c_profiles = ps; c_active = active; c_rpc = rpc; c_socks5 = s5; c_adv = adv; c_log = log; c_s5lan = s5lan;
    c_http = http; c_httplan = httplan; c_auth = auth }

let hx l = if l = [] then "" else hex_of_bytes l
let pr_obytes = function None -> "N" | Some l -> "S" ^ hx l
let pr_oz = function None -> "N" | Some z -> "I" ^ dec_of_z z
let pr_obool = function None -> "N" | Some true -> "T" | Some false -> "F"
let pr_hpw = function
  | None -> "N"
  | Some (x :: rest) when int_of_n x = 256 -> "H" ^ hx rest
  | Some l -> "S" ^ hx l
let pr_list f l = String.concat " " (string_of_int (List.length l) :: List.map f l)
let pr_user u = String.concat " " [pr_obytes u.u_name; pr_obytes u.u_pw; pr_hpw u.u_hpw;
  pr_list (fun q -> dec_of_z q.q_days ^ " " ^ dec_of_z q.q_mb) u.u_quotas; hex_of_bytes u.u_rest]
let hb = hex_of_bytes
let pr_adv = function None -> "N" | Some a -> String.concat " " ["A"; hb a.adv_raw; hb a.adv_interval; pr_oz a.adv_interval_ns]
let pr_tp = function None -> "N" | Some t -> String.concat " " ["T"; hb t.tp_raw; bool_s t.tp_ok]
let pr_egress = function None -> "N" | Some e -> String.concat " " ["E"; hb e.eg_raw;
  pr_list (fun p -> String.concat " " [hb p.px_name; dec_of_z p.px_proto; hb p.px_host; dec_of_z p.px_port; hb p.px_auth_user; hb p.px_auth_pw]) e.eg_proxies;
  pr_list (fun r -> String.concat " " [pr_list bool_s r.ru_ip_ok; pr_list hb r.ru_domains; dec_of_z r.ru_action; pr_list hb r.ru_proxies]) e.eg_rules]
let pr_dns = function None -> "N" | Some d -> String.concat " " ["D"; hb d.dns_raw;
  pr_list (fun h -> String.concat " " [hb h.h_domain; hb h.h_norm; bool_s h.h_ip_ok]) d.dns_hosts]
let pr_pb b = String.concat " " [pr_oz b.pb_port; pr_oz b.pb_proto; pr_obytes b.pb_range]
let pr_server s =
  String.concat " " [(match s.s_ports with None -> "N" | Some l -> "L " ^ pr_list pr_pb l); pr_list pr_user s.s_users;
    pr_adv s.s_adv; pr_oz s.s_log; pr_oz s.s_mtu; pr_egress s.s_egress; pr_dns s.s_dns; pr_tp s.s_tp]
let pr_ep s = String.concat " " [hb s.se_ip; bool_s s.se_ip_ok; hb s.se_domain; bool_s s.se_domain_is_ip; pr_list pr_pb s.se_bindings]
let pr_dialer = function None -> "N" | Some d -> String.concat " " ["Y"; dec_of_z d.dl_proto; hb d.dl_host; dec_of_z d.dl_port;
  bool_s d.dl_has_auth; hb d.dl_auth_user; hb d.dl_auth_pw]
let pr_profile p =
  String.concat " " [pr_obytes p.p_name; (match p.p_user with None -> "N" | Some u -> "U " ^ pr_user u);
    pr_list pr_ep p.p_servers; pr_oz p.p_mtu; pr_oz p.p_mux; pr_oz p.p_hs; pr_tp p.p_tp; pr_dialer p.p_dialer; hex_of_bytes p.p_rest]
let pr_client c =
  String.concat " " [pr_list pr_profile c.c_profiles; pr_obytes c.c_active; pr_oz c.c_rpc; pr_oz c.c_socks5; pr_adv c.c_adv;
    pr_oz c.c_log; pr_obool c.c_s5lan; pr_oz c.c_http; pr_obool c.c_httplan;
    (match c.c_auth with None -> "N" | Some l -> "L " ^ pr_list (fun a -> String.concat " " [hb a.au_raw; hb a.au_user; hb a.au_pw]) l)]

let pr_binding (up, proto) = match up with
  | UPort p -> "P" ^ dec_of_z p ^ "/" ^ dec_of_z proto
  | URange (a, b) -> "R" ^ dec_of_z a ^ "-" ^ dec_of_z b ^ "/" ^ dec_of_z proto

let rd_url () =
  let ok = rd_bool () in let sch = rd_bytes () in let op = rd_bytes () in
  { ul_ok = ok; ul_scheme = sch; ul_opaque = op }

(* history cases: the model's state (what the server configuration file holds) lives across lines *)
let hstate : server_cfg option ref = ref None
let hstep op =
  let (s', out) = step_toy !hstate op in
  hstate := s';
  (match out with Rejected _ -> "REJ " | Accepted _ -> "OK ") ^
  (match s' with None -> "NOFILE" | Some c -> pr_server c)

let () =
  let cases = open_in Sys.argv.(1) in
  iter_lines cases (fun line ->
    toks := split_ws line;
    let out =
      try
        match next () with
        | "MS" -> let o = rd_server () in let p = rd_server () in pr_server (merge_server o p)
        | "SS" -> pr_server (store_server_toy (rd_server ()))
        | "AS" -> let o = rd_server () in let p = rd_server () in pr_server (store_server_toy (merge_server o p))
        | "MC" -> let o = rd_client () in let p = rd_client () in pr_client (merge_client o p)
        | "SC" -> pr_client (store_client_toy (rd_client ()))
        | "LG" ->
          let s = rd_bytes () in let u = rd_url () in
          let b64ok = rd_bool () in let protook = rd_bool () in
          (match link_guard s u with
           | Panic -> "PANIC"
           | Err e -> "ERR " ^ string_of_int (int_of_n e)
           | Ok _ -> if not b64ok then "ERR 5" else if not protook then "ERR 6" else "OK")
        | "SL" ->
          let u = rd_url () in
          let has_user = rd_bool () in let user = rd_bytes () in let pw = rd_bytes () in
          let host = rd_bytes () in let is_ip = rd_bool () in let qok = rd_bool () in
          let profile = rd_bytes () in let mtu = rd_bytes () in
          let mux = rd_bytes () in let muxv = z_of_dec (next ()) in
          let hs = rd_bytes () in let hsv = z_of_dec (next ()) in
          let tp = rd_bytes () in let tps = n_of_int (rd_int ()) in
          let ports = rd_list rd_bytes in
          let protos = rd_list (fun () -> z_of_dec (next ())) in
          let su = { su_url = u; su_has_user = has_user; su_user = user; su_pw = pw; su_host = host; su_host_is_ip = is_ip;
                     su_query_ok = qok; su_profile = profile; su_mtu = mtu; su_mux = mux; su_mux_val = muxv; su_hs = hs;
                     su_hs_val = hsv; su_tp = tp; su_tp_status = tps; su_ports = ports; su_protos = protos } in
          (match simple_link su with
           | Panic -> "PANIC"
           | Err e -> "ERR " ^ string_of_int (int_of_n e)
           | Ok p -> String.concat " " ["OK"; hex_of_bytes p.sp_name; hex_of_bytes p.sp_user; hex_of_bytes p.sp_pw;
                                        pr_obytes p.sp_ip; pr_obytes p.sp_domain; pr_oz p.sp_mtu; pr_oz p.sp_mux; pr_oz p.sp_hs;
                                        bool_s p.sp_tp; pr_list pr_binding p.sp_bindings])
        | "PR" ->
          (match parse_port_range (rd_bytes ()) with
           | None -> "ERR"
           | Some (a, b) -> "OK " ^ dec_of_z (xb_zadd (xb_zadd b (xb_zopp a)) (z_of_int 1)))
        | "FB" -> if flat_ok (rd_list rd_pb) then "OK" else "ERR"
        | "VS" -> string_of_int (int_of_n (validate_full_server (rd_server ())))
        | "VP" -> string_of_int (int_of_n (validate_server_patch (rd_server ())))
        | "VC" -> string_of_int (int_of_n (validate_full_client (rd_client ())))
        | "VK" -> string_of_int (int_of_n (validate_client_patch (rd_client ())))
        | "HR" -> hstate := None; "-"
        | "HA" -> hstep (OpApply (rd_server ()))
        | "HM" -> hstep OpApplyMalformed
        | "HL" -> hstep OpLoad
        | "HG" -> hstep OpGetJSON
        | "HS" -> hstep (OpStore (rd_server ()))
        | "HD" -> hstep (OpDelete (rd_list rd_bytes))
        | "NH" -> (match hint_input (rd_bytes ()) (List.init 16 (fun _ -> n_of_int 0)) with Ok _ -> "OK" | _ -> "PANIC")
        | "AT" -> (match atoi (rd_bytes ()) with None -> "ERR" | Some v -> dec_of_z v)
        | _ -> "?"
      with Failure m -> "?parse " ^ m
    in
    print_endline out)
