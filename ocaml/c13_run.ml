(* Model runner for C02 / C13.  usage: c02_model cases.txt impl.txt > model.txt
   cases.txt holds the recorded trace of every session, one event per line (see harness/cmd/c02):
     B <label> | W <side> <hex> | S <side> <type> <seq> <unack> <window> <frag> <hex> | R <side> <k> | A <side> <hex> | F | X <side>
   X marks the start of closing (an application called Close, or mieru closed the session itself): the lines of the
   session before it are the acceptor trace (pre), the S lines after it (post) are folded with UdpProto.late_step,
   which only demands that no sequence number is used for two contents (accept_closed; theorem
   C13_trace_retx_same_across_close).
   The runner folds the extracted acceptor step (UdpProto.acc_step, whose soundness is proofs/UdpProtoProofs.v
   the accept_... lemmas) over the events of a session and prints "OK" for every accepted line; for the first rejected
   event of a session it prints the reason and the index of the event inside the session (later lines of that
   session print OK so that one defect gives one difference). *)
open Model
open Common

let reason c = match int_of_n c with
  | 1 -> "segment-type-not-allowed-for-this-endpoint"
  | 2 -> "ack-ahead-of-receipt"
  | 3 -> "new-seq-payload-is-not-the-next-written-bytes"
  | 4 -> "retransmission-differs"
  | 5 -> "seq-gap"
  | 6 -> "receipt-of-a-datagram-never-emitted"
  | 7 -> "read-bytes-are-not-the-next-in-order-bytes"
  | 8 -> "completion-claimed-but-data-outstanding"
  | k -> "code-" ^ string_of_int k

let side s = (s = "1")

let () =
  let cases = open_in Sys.argv.(1) in
  let st = ref a0 and dead = ref false and idx = ref 0 and label = ref "" in
  let closing = ref false and late = ref (late_init a0) in
  iter_lines cases (fun line ->
    let ev = match split_ws line with
      | "B" :: l -> st := a0; dead := false; idx := 0; label := String.concat " " l; closing := false; late := late_init a0; None
      | ["X"; _] -> closing := true; late := late_init !st; None
      | ["W"; s; h] -> Some (EW (side s, bytes_of_hex h))
      | ["A"; s; h] -> Some (EA (side s, bytes_of_hex h))
      | ["R"; s; k] -> Some (ER (side s, n_of_dec k))
      | ["S"; s; ty; seq; un; w; f; h] ->
        Some (ES (side s, { g_ty = n_of_dec ty; g_seq = n_of_dec seq; g_unack = n_of_dec un; g_win = n_of_dec w;
                            g_frag = n_of_dec f; g_pay = bytes_of_hex h }))
      | ["F"] -> Some EF
      | _ -> failwith ("bad line: " ^ (if String.length line > 80 then String.sub line 0 80 else line)) in
    match ev with
    | None -> print_endline "OK"
    | Some e ->
      if !dead then print_endline "OK"
      else if !closing then begin
        (match late_step !st !late e with
         | Some l -> late := l; print_endline "OK"
         | None -> dead := true; Printf.printf "REJECT after-close:two-contents-on-one-sequence-number-or-ack-ahead-or-bad-type at-event %d of %s\n" !idx !label);
        incr idx
      end
      else begin
        (match acc_step !st e with
         | Acc a -> st := a; print_endline "OK"
         | Rej c -> dead := true; Printf.printf "REJECT %s at-event %d of %s\n" (reason c) !idx !label);
        incr idx
      end)
