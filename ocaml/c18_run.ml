(* Model runner for C18.  usage: c18_model cases.txt impl.txt > model.txt
   Streams are fed to the extracted reader chunk by chunk (chunks longer than 4096 bytes are fed in
   pieces; FrameProofs.feed_app says this changes nothing). *)
open Model
open Common

let render (l : n list) : string =
  let len = List.length l in
  if len <= 32 then hex_of_bytes l else begin
    let b = Bytes.create len in
    List.iteri (fun i x -> Bytes.set b i (Char.chr (int_of_n x))) l;
    Printf.sprintf "%d:%s" len (Digest.to_hex (Digest.bytes b))
  end

let rerr_s = function
  | EBadStart -> "BADSTART" | EBadEnd -> "BADEND" | EShortBuf -> "SHORTBUF" | EEof -> "EOF" | EUnexpectedEof -> "UEOF"
let perr_s = function
  | PNoData -> "NODATA" | PInvalid -> "INVALID" | PUnsupported -> "UNSUPPORTED" | PAddrType -> "ADDRTYPE"
let werr_s = function
  | WShort -> "SHORT" | WInvalid -> "INVALID" | WFrag -> "FRAG" | WNoData -> "NODATA" | WAddrType -> "ADDRTYPE" | WFqdn -> "FQDN"
let event_s = function EvD d -> "D:" ^ render d | EvErr e -> "E:" ^ rerr_s e

(* first k elements (reversed accumulator) and the rest, tail recursive *)
let take_drop k l =
  let rec go k acc l = if k = 0 then (List.rev acc, l) else match l with [] -> (List.rev acc, []) | x :: t -> go (k - 1) (x :: acc) t in
  go k [] l

let chunk_sizes (spec : string) (total : int) : int list =
  let body = String.sub spec 2 (String.length spec - 2) in
  if spec.[0] = 'k' then begin
    let k = int_of_string body in
    let rec go left acc = if left <= 0 then List.rev acc else go (left - k) ((min k left) :: acc) in
    go total []
  end else if body = "-" then [] else List.map int_of_string (String.split_on_char ',' body)

let run_frames cap stream spec =
  let total = List.length stream in
  let evs = ref [] and ph = ref PStart and rest = ref stream in
  let feed_piece p =
    let (es, ph') = feed cap !ph p in
    evs := List.rev_append es !evs; ph := ph' in
  List.iter (fun sz ->
    let (c, r) = take_drop sz !rest in
    rest := r;
    let c = ref c in
    while !c <> [] do
      let (p, r') = take_drop 4096 !c in
      feed_piece p; c := r'
    done) (chunk_sizes spec total);
  if !rest <> [] then feed_piece !rest;
  let all = List.rev (EvErr (close !ph) :: !evs) in
  String.concat " " (List.map event_s all)

let opt_ip s = if s = "-" then None else Some (bytes_of_hex s)

let rout_s = function
  | OSend (dst, p) -> Printf.sprintf "send %s %s %s" (hex_of_bytes (norm_ip dst.uip)) (dec_of_n dst.uport) (render p)
  | OClient pkt -> "client " ^ render pkt
  | ODrop -> "drop"
  | OStopParse e -> "stop " ^ perr_s e
  | OStopWrite -> "stop WRITE"
  | OPanic -> "panic"

let () =
  let cases = open_in Sys.argv.(1) in
  iter_lines cases (fun line ->
    match split_ws line with
    | ["F"; cap; stream; spec] -> print_endline (run_frames (n_of_dec cap) (bytes_of_hex stream) spec)
    | ["W"; d] ->
      (match write (bytes_of_hex d) with Some f -> print_endline ("OK " ^ render f) | None -> print_endline "ERR")
    | ["H"; pkt] ->
      (match parse (bytes_of_hex pkt) with
       | POk (a, h, p) -> Printf.printf "OK %s %s %s %s %s\n" (hex_of_bytes a.fqdn) (hex_of_bytes a.ip) (dec_of_n a.port) (hex_of_bytes h) (render p)
       | PErr e -> print_endline ("ERR " ^ perr_s e))
    | ["A"; p1; p2] ->
      (match parse (bytes_of_hex p1), parse (bytes_of_hex p2) with
       | POk (_, h1, _), POk (_, h2, _) -> print_endline (hex_of_bytes h1 ^ " " ^ hex_of_bytes h2)
       | _ -> print_endline "ERR")
    | ["B"; f; i; p; pl] ->
      (match build_dgram { fqdn = bytes_of_hex f; ip = bytes_of_hex i; port = n_of_dec p } (bytes_of_hex pl) with
       | Some pkt -> print_endline ("OK " ^ render pkt) | None -> print_endline "ERR")
    | ["U"; i; p] ->
      (match udp_addr_to_header { uip = bytes_of_hex i; uport = n_of_dec p } with
       | Some h -> print_endline (hex_of_bytes h) | None -> print_endline "PANIC")
    | ["P"; cap; b] ->
      (match wrapper_read (n_of_dec cap) (bytes_of_hex b) with
       | WOk (p, from) -> Printf.printf "OK %s %s %s\n" (render p) (hex_of_bytes from.uip) (dec_of_n from.uport)
       | WErr e -> print_endline ("ERR " ^ werr_s e))
    | ["Q"; pl; i; p] ->
      (match wrapper_write (bytes_of_hex pl) { uip = bytes_of_hex i; uport = n_of_dec p } with
       | Some b -> print_endline ("OK " ^ render b) | None -> print_endline "ERR")
    | "R" :: _ ->
      let body = String.sub line 2 (String.length line - 2) in
      let hist = List.filter_map (fun part ->
        match split_ws part with
        | ["up"; pkt; dns] -> Some (Up (bytes_of_hex pkt, opt_ip dns))
        | ["down"; i; p; pl] -> Some (Down ({ uip = bytes_of_hex i; uport = n_of_dec p }, bytes_of_hex pl))
        | _ -> None) (String.split_on_char ';' body) in
      let (outs, _) = relay_run [] hist in
      print_endline (String.concat " ; " (List.map rout_s outs))
    | _ -> print_endline "?")
